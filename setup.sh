#!/bin/sh
# Offline setup: everything comes from files on disk.
set -e
cd "$(dirname "$0")"
PY=/venv/bin/python
$PY -c "import hypothesis, pyparsing" 2>/dev/null || \
  /venv/bin/pip install --no-index --find-links /opt/veriftools/wheels hypothesis
mkdir -p .deps
$PY -c "import sys; sys.path.append('.deps'); import atheris" 2>/dev/null || \
  /venv/bin/pip install -q --no-index --find-links /opt/veriftools/wheels --target .deps atheris || \
  echo "atheris not installable (C07 thorough fuzz stage will be skipped)"
TPL=/repo/gtwrap/matlab_wrapper/matlab_wrapper.tpl
[ -f "$TPL" ] || printf '#include <gtwrap/matlab.h>\n#include <map>\n' > "$TPL"
echo setup ok
