"""Shared by the MATLAB checks C05 / C06 / C10: domain, generation, scanning, agreement."""
from __future__ import annotations

import re
from dataclasses import replace
from typing import Dict, List

from hypothesis import strategies as st

from vlib import findings
from vlib import gen as G
from vlib import matscan, refinst, refmat, wraps
from vlib import model as M
from vlib import render as R
from vlib.refmat import TypeInfo, canon
from vlib.runner import Failure
from checks import pycommon as PC

MODULE = 'mod'


def profile():
    return replace(PC.profile(), name='matlab', max_items=5, max_members=6, ns_depth=3,
                   operators=False, member_template_odds=4,
                   reopen_ns=True)  # several interface files of one project: same namespace again


def _no_string_ref(m):
    """Exclusions for open findings that golden files pin:
    F-28: string& is unwrapped as an object handle;
    F-29: a templated base class is spelled with angle brackets in the classdef line."""
    if findings.is_open('F-28-matlab-string-ref'):
        def fn(t: M.Type):
            if t.name == 'string' and t.ptr:
                return replace(t, ptr='')
            return t
        m = M.map_types(m, fn, skip_templates=True)
    if findings.is_open('F-34-matlab-static-template-args'):
        def statics(it):
            if isinstance(it, M.Class):
                return replace(it, members=tuple(x for x in it.members if not (
                    isinstance(x, M.Static) and x.template is not None)))
            return it
        m = M.map_items(m, statics)
    if findings.is_open('F-12-matlab-setter-deref'):
        def props(it):
            if isinstance(it, M.Class):
                return replace(it, members=tuple(
                    replace(x, type=replace(x.type, ptr='')) if isinstance(x, M.Prop) and
                    x.type.ptr in ('*', '@', '&') else x for x in it.members))
            return it
        m = M.map_items(m, props)
    if findings.is_open('F-29-matlab-templated-base'):
        def cls(it):
            if isinstance(it, M.Class) and it.parent is not None and it.parent.targs:
                return replace(it, parent=replace(it.parent, targs=()))
            return it
        m = M.map_items(m, cls)
    return m


@st.composite
def cases(draw, tier):
    m = _no_string_ref(draw(G.modules(profile())))
    items = refinst.expected(M.observable(m))
    cls = [c for c in PC.classes_of(items) if c['k'] == 'class']
    ignore = []
    if cls and draw(st.integers(0, 3)) == 0:
        k = draw(st.integers(1, min(2, len(cls))))
        for c in draw(st.permutations(cls))[:k]:
            ignore.append('::'.join(tuple(c['path']) + (c['name'],)))
    return {'m': m, 'ignore': ignore, 'boost': draw(st.booleans())}


def generate(case):
    """-> (expected, files, wrapper) or raises."""
    m = case['m']
    items = refinst.expected(M.observable(m))
    exp = refmat.expected_toolbox(items, MODULE, case['ignore'], case['boost'])
    tree = wraps.matlab_tree([R.text(m)], module_name=MODULE, ignore=case['ignore'] or [''],
                             boost=case['boost'])
    files, wrapper = matscan.scan_toolbox(tree, MODULE)
    return exp, tree, files, wrapper


def describe(case):
    return {'model': M.to_json(case['m']), 'text': R.text(case['m']), 'ignore': case['ignore'],
            'boost': case['boost']}


def from_replay(o):
    if 'model' in o:
        m = M.from_json(o['model'])
    else:
        from vlib import reader
        m = reader.read(o['text'])
    return {'m': m, 'ignore': o.get('ignore', []), 'boost': o.get('boost', False),
            'strict': 'model' not in o}


def routine_role(r: matscan.Routine) -> str:
    body = '\n'.join(r.body)
    if r.upcast_to:
        return 'upcast'
    if r.new_class:
        return 'constructor'
    if r.deletes_self and r.collector_erase:
        return 'delete'
    if r.collector_insert:
        return 'collector'
    if 'out_archive <<' in body:
        return 'serialize'
    if 'in_archive >>' in body:
        return 'deserialize'
    if r.assigns:
        return 'setter'
    if r.obj_class and not r.call:
        return 'getter'
    if r.obj_class and r.call.startswith('obj->'):
        return 'method'
    if r.call:
        return 'static-or-function'
    return 'unknown'


def routine_class(r: matscan.Routine) -> str:
    return r.upcast_to or r.new_class or r.obj_class or r.shared or ''


def features(case):
    m = case['m']
    f = set()
    ncls = 0
    seen_virtual_not_last = False
    classes = [it for _, it in M.iter_items(m) if isinstance(it, M.Class)]
    for i, c in enumerate(classes):
        if c.virtual and i < len(classes) - 1:
            f.add('virtual-not-last')
        if c.virtual:
            f.add('virtual')
        if c.parent is not None:
            f.add('derived')
        if any(isinstance(x, M.Ctor) and any(a.default is not None for a in x.args)
               for x in c.members):
            ncls += 1
        if any(isinstance(x, M.Prop) for x in c.members) and i < len(classes) - 1:
            f.add('properties-then-more-classes')
        for x in c.members:
            if isinstance(x, (M.Method, M.Static, M.Ctor)):
                if any(a.default is not None for a in x.args):
                    f.add('defaults')
                if len(x.args) >= 3:
                    f.add('three-plus-args')
            if isinstance(x, (M.Method, M.Static)) and x.ret.t2 is not None:
                f.add('pair-return')
            if isinstance(x, M.Enum):
                f.add('class-enum')
            if getattr(x, 'template', None):
                f.add('member-template')
        if c.template:
            f.add('class-template')
    if ncls >= 2:
        f.add('two-classes-ctor-defaults')
    for p, it in M.iter_items(m):
        if isinstance(it, M.Func):
            f.add('free-function')
            if p:
                f.add('namespaced-function')
        if len(p) >= 2 and isinstance(it, M.Class):
            f.add('class-at-depth>=2')
            if any(isinstance(x, M.Enum) for x in it.members):
                f.add('class-enum-at-depth>=2')
    if case['ignore']:
        f.add('ignore')
    if case['boost']:
        f.add('boost')
    return f
