"""C01 - Interface files parse to a tree that mirrors the source exactly.

Domain: `dialect` models rendered canonically (plus fixtures parsed and re-rendered).
Oracle: project(parse(render(m))) == observable(m) - whole-tree equality, both directions - and
the tree's own bookkeeping (parent links, namespace paths) is consistent.
"""
from __future__ import annotations

import glob
import os

from vlib import gen as G
from vlib import model as M
from vlib import project as P
from vlib import render as R
from vlib.runner import REPO, Failure, Spec
from vlib import treediff

NONTRIVIAL = {'ns-depth>=2', 'type-depth>=2', 'qualifier-inside-targs', 'pair-qualified',
              'default-brackets-quotes', 'templated-base', 'interleaved-member-kinds'}


def check(case):
    m, text = case
    try:
        tree = P.parse(text)
    except Exception as e:  # a well-formed file must be accepted
        return [Failure('C01.rejected', '%s: %s' % (type(e).__name__, str(e)[:300]))]
    try:
        got, problems = P.project(tree)
    except P.MalformedTree as e:
        return [Failure('C01.tree-malformed', str(e)[:300])]
    out = []
    if problems:
        out.append(Failure('C01.tree-bookkeeping', '; '.join(problems)[:600]))
    want = M.observable(m)
    if got != want:
        out.append(Failure('C01.tree-mismatch', treediff.first_diff(want, got)))
    return out


def _case_from_text(text):
    """A replay given as text only: the model is what the *renderer-independent* reading gives,
    i.e. the case must round-trip through render: parse -> project -> render -> parse."""
    tree = P.parse(text)
    m, _ = P.project(tree)
    return (m, text)


def from_replay(obj):
    if 'model' in obj:
        return (M.from_json(obj['model']), obj['text'])
    # text-only witness: expected model supplied by the independent lexer-based reader
    from vlib import reader
    return (reader.read(obj['text']), obj['text'])


def fixtures():
    from vlib import reader
    out = []
    for f in sorted(glob.glob(os.path.join(REPO, 'tests', 'fixtures', '*.i'))):
        text = open(f).read()
        out.append((reader.read(text), text))
    return out


SPEC = Spec(
    pid='C01',
    strategy=lambda tier: G.modules(G.DIALECT).map(lambda m: (m, R.text(m))),
    check=check,
    describe=lambda c: {'model': M.to_json(c[0]), 'text': c[1]},
    from_replay=from_replay,
    key=lambda c: c[1],
    features=lambda c: G.features(c[0]),
    nontrivial=lambda c, f: bool(f & NONTRIVIAL),
    rule="Hypothesis builds a model of an interface file (whole documented dialect, by "
         "construction), renders it, parses it with gtwrap and compares the projected tree with "
         "the model (equality of whole trees). Non-trivial: the file has namespace depth>=2, a "
         "templated type of depth>=2, a qualifier inside template arguments, a qualified pair "
         "return, a default containing brackets/quotes/commas, a templated base class or "
         "interleaved member kinds. Distinct = distinct rendered text.",
    budget={'quick': 64, 'thorough': 1500},
    size=lambda c: len(c[1]),
    fixtures=fixtures,
    sample_fn=lambda c: c[1],
    assumptions=["vlib.render spells the dialect as DOCS.md / tokens.py define it",
                 "identifiers avoid C++/grammar keywords; a namespace is opened once per scope"],
)
