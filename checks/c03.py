"""C03 - The generated Python module exposes exactly the declared API."""
from __future__ import annotations

import collections

from dataclasses import replace

from hypothesis import strategies as st

from vlib import gen as G
from vlib import model as M
from vlib import pyrecords, pyscan, reader, refinst, refpy, wraps
from vlib import render as R
from vlib.runner import Failure, Spec
from checks import pycommon as PC


@st.composite
def cases(draw, tier):
    # typedefs may sit in another namespace than their template (bound where the template lives)
    m = draw(G.modules(replace(PC.profile(), typedef_same_ns=False)))
    items = refinst.expected(M.observable(m))
    opts = draw(PC.options(m, items))
    if opts['top'] and any(isinstance(it, M.Typedef) and tuple(it.type.ns) != tuple(p)
                           for p, it in M.iter_items(m)):
        # ... which exists only if the whole file is bound: a top namespace may cut it off
        opts = dict(opts, top=[])
    if opts['top'] and opts['top'] != ['nosuch'] and draw(st.integers(0, 2)) == 0:
        # a namespace on the path to (or equal to) the top namespace is opened twice: no
        # submodule variable belongs to it, so both blocks must simply be bound
        k = draw(st.integers(1, len(opts['top'])))
        m = _split_block(draw, m, tuple(opts['top'][:k]))
    return (m, opts)


def _split_block(draw, node, path):
    """Cut the first block of namespace `path` into two adjacent blocks of the same name."""
    content = list(node.content)
    for i, it in enumerate(content):
        if isinstance(it, M.Namespace) and it.name == path[0]:
            if len(path) > 1:
                content[i] = _split_block(draw, it, path[1:])
            else:
                n = len(it.content)
                cut = draw(st.integers(1, n - 1)) if n >= 2 else draw(st.integers(0, n))
                content[i:i + 1] = [M.Namespace(it.name, tuple(it.content[:cut])),
                                    M.Namespace(it.name, tuple(it.content[cut:]))]
            break
    return replace(node, content=tuple(content))


def check(case):
    m, opts = case
    text = R.text(m)
    items = refinst.expected(M.observable(m))
    try:
        tu = wraps.pybind_text(text, top=[''] + opts['top'], ignore=opts['ignore'],
                               boost=opts['boost'])
    except Exception as e:
        return [Failure('C03.generator-raises', '%s: %s' % (type(e).__name__, str(e)[:300]))]
    try:
        stmts = PC.scan(tu)
    except pyscan.ScanError as e:
        return [Failure('C03.unscannable-output', str(e)[:300])]
    got, problems = pyrecords.records(stmts)
    want = refpy.expected_records(items, opts['top'], opts['ignore'], opts['boost'])
    out = []
    for p in problems:
        clause = 'C03.submodule-order' if 'submodule' in p or 'before' in p else 'C03.structure'
        out.append(Failure(clause, p))
    cg, cw = collections.Counter(got), collections.Counter(want)
    if cg != cw:
        missing = list((cw - cg).elements())
        extra = list((cg - cw).elements())
        kinds = {r[0] for r in missing + extra}
        # refine: a binding that exists under another name / place is reported as such
        def key(r):
            return r[:3]
        if missing and extra and {key(r) for r in missing} == {key(r) for r in extra}:
            clause = 'C03.signature'
        elif missing and not extra:
            clause = 'C03.missing-binding'
        elif extra and not missing:
            clause = 'C03.extra-binding'
        else:
            clause = 'C03.inventory'
        out.append(Failure(clause, 'missing %s; unexpected %s' % (missing[:3], extra[:3])))
    return out


def features(case):
    m, opts = case
    f = set()
    if opts['top']:
        f.add('top-depth-%d' % min(len(opts['top']), 3))
        if opts['top'] == ['nosuch']:
            f.add('top-missing')
    if opts['ignore']:
        f.add('ignore')
    if _reopened(m):
        f.add('top-path-reopened')
    if opts['boost']:
        f.add('boost')
    import keyword
    for path, it in M.iter_items(m):
        if len(path) >= 2:
            f.add('ns-depth>=2')
        if isinstance(it, M.Class):
            for x in it.members:
                n = getattr(x, 'name', '')
                if n in keyword.kwlist:
                    f.add('keyword-name')
                if n in ('print',) + tuple(refpy.IPYTHON):
                    f.add('special-name')
                if n in ('serialize', 'serializable'):
                    f.add('serialize')
                if isinstance(x, M.Enum):
                    f.add('class-enum')
            if it.template:
                f.add('class-template')
        if isinstance(it, M.Func) and it.name in keyword.kwlist + ['print']:
            f.add('keyword-name')
        if isinstance(it, M.Typedef):
            f.add('typedef')
    return f


def _reopened(node):
    names = [it.name for it in node.content if isinstance(it, M.Namespace)]
    return len(names) != len(set(names)) or any(
        _reopened(it) for it in node.content if isinstance(it, M.Namespace))


def from_replay(o):
    m = M.from_json(o['model']) if 'model' in o else reader.read(o['text'])
    return (m, o['options'])


SPEC = Spec(
    pid='C03',
    strategy=lambda tier: cases(tier),
    check=check,
    describe=lambda c: {'model': M.to_json(c[0]), 'text': R.text(c[0]), 'options': c[1]},
    from_replay=from_replay,
    key=lambda c: R.text(c[0]) + repr(sorted(c[1].items())),
    features=features,
    nontrivial=lambda c, f: bool(f & {'top-depth-1', 'top-depth-2', 'top-depth-3', 'ignore',
                                      'keyword-name', 'special-name', 'ns-depth>=2'}),
    rule="Hypothesis draws a semantic-profile module and an option set: top namespace (an "
         "existing path of depth 1..3, a missing one, or global; in a third of the cases with a top "
         "namespace one block on the path to it, or the top namespace itself, is cut into two "
         "blocks of the same name), ignore list (0..3 generated "
         "classes incl. template instantiations and typedef'd ones, spelled as C++ names, plus "
         "unknown names), serialization flag. Oracle: the multiset of binding records scanned "
         "from the emitted TU (vlib.pyscan: submodules, classes with base, constructors with "
         "types and keyword arguments, methods/static methods with parameter types, names and "
         "defaults, properties, operators, dunder methods, enums with enumerators, variables, "
         "free functions) == records computed from the instantiated model (vlib.refpy); every "
         "module/scope variable is created exactly once before its first use. Non-trivial: "
         "non-global top namespace, ignore hit, Python-keyword or special name, or nesting >= 2.",
    budget={'quick': 64, 'thorough': 1500},
    size=lambda c: len(R.text(c[0])),
    sample_fn=lambda c: {'options': c[1], 'text': R.text(c[0])[:1200]},
    assumptions=["Python keywords = keyword.kwlist of the running interpreter (3.12)",
                 "documented special cases encoded in vlib.refpy: serialize/serializable markers, "
                 "print -> extra __repr__, ipython names -> _repr_x_; gtsam::Values::insert is "
                 "not generated", "typedefs are generated in the namespace of their template; "
                 "`This::X` scoped uses are left to C02"],
)
