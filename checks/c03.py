"""C03 - The generated Python module exposes exactly the declared API."""
from __future__ import annotations

import collections

from dataclasses import replace

from hypothesis import strategies as st

from vlib import gen as G
from vlib import model as M
from vlib import pyrecords, pyscan, reader, refinst, refpy, wraps
from vlib import render as R
from vlib.runner import Failure, Spec
from checks import pycommon as PC


@st.composite
def cases(draw, tier):
    # typedefs may sit in another namespace than their template (bound where the template lives)
    m = draw(G.modules(replace(PC.profile(), typedef_same_ns=False)))
    items = refinst.expected(M.observable(m))
    opts = draw(PC.options(m, items))
    if opts['top'] and any(isinstance(it, M.Typedef) and tuple(it.type.ns) != tuple(p)
                           for p, it in M.iter_items(m)):
        # ... which exists only if the whole file is bound: a top namespace may cut it off
        opts = dict(opts, top=[])
    m = draw(PC.reopen_top(m, opts))
    return (m, opts)


def check(case):
    m, opts = case
    text = R.text(m)
    items = refinst.expected(M.observable(m))
    try:
        tu = wraps.pybind_text(text, top=[''] + opts['top'], ignore=opts['ignore'],
                               boost=opts['boost'])
    except Exception as e:
        return [Failure('C03.generator-raises', '%s: %s' % (type(e).__name__, str(e)[:300]))]
    try:
        stmts = PC.scan(tu)
    except pyscan.ScanError as e:
        return [Failure('C03.unscannable-output', str(e)[:300])]
    got, problems = pyrecords.records(stmts)
    want = refpy.expected_records(items, opts['top'], opts['ignore'], opts['boost'])
    out = []
    for p in problems:
        clause = 'C03.submodule-order' if 'submodule' in p or 'before' in p else 'C03.structure'
        out.append(Failure(clause, p))
    cg, cw = collections.Counter(got), collections.Counter(want)
    if cg != cw:
        missing = list((cw - cg).elements())
        extra = list((cg - cw).elements())
        kinds = {r[0] for r in missing + extra}
        # refine: a binding that exists under another name / place is reported as such
        def key(r):
            return r[:3]
        if missing and extra and {key(r) for r in missing} == {key(r) for r in extra}:
            clause = 'C03.signature'
        elif missing and not extra:
            clause = 'C03.missing-binding'
        elif extra and not missing:
            clause = 'C03.extra-binding'
        else:
            clause = 'C03.inventory'
        out.append(Failure(clause, 'missing %s; unexpected %s' % (missing[:3], extra[:3])))
    return out


def features(case):
    m, opts = case
    f = set()
    if opts['top']:
        f.add('top-depth-%d' % min(len(opts['top']), 3))
        if opts['top'] == ['nosuch']:
            f.add('top-missing')
    if opts['ignore']:
        f.add('ignore')
    if PC.reopened(m):
        f.add('top-path-reopened')
    if opts['boost']:
        f.add('boost')
    import keyword
    for path, it in M.iter_items(m):
        if len(path) >= 2:
            f.add('ns-depth>=2')
        if isinstance(it, M.Class):
            for x in it.members:
                n = getattr(x, 'name', '')
                if n in keyword.kwlist:
                    f.add('keyword-name')
                if n in ('print',) + tuple(refpy.IPYTHON):
                    f.add('special-name')
                if n in ('serialize', 'serializable'):
                    f.add('serialize')
                if isinstance(x, M.Enum):
                    f.add('class-enum')
            if it.template:
                f.add('class-template')
        if isinstance(it, M.Func) and it.name in keyword.kwlist + ['print']:
            f.add('keyword-name')
        if isinstance(it, M.Typedef):
            f.add('typedef')
    return f


def from_replay(o):
    m = M.from_json(o['model']) if 'model' in o else reader.read(o['text'])
    return (m, o['options'])


SPEC = Spec(
    pid='C03',
    strategy=lambda tier: cases(tier),
    check=check,
    describe=lambda c: {'model': M.to_json(c[0]), 'text': R.text(c[0]), 'options': c[1]},
    from_replay=from_replay,
    key=lambda c: R.text(c[0]) + repr(sorted(c[1].items())),
    features=features,
    nontrivial=lambda c, f: bool(f & {'top-depth-1', 'top-depth-2', 'top-depth-3', 'ignore',
                                      'keyword-name', 'special-name', 'ns-depth>=2'}),
    rule="Hypothesis draws a semantic-profile module and an option set: top namespace (an "
         "existing path of depth 1..3, a missing one, or global; in a third of the cases with a top "
         "namespace one block on the path to it, or the top namespace itself, is cut into two "
         "blocks of the same name), ignore list (0..3 generated "
         "classes incl. template instantiations and typedef'd ones, spelled as C++ names, plus "
         "unknown names), serialization flag. Oracle: the multiset of binding records scanned "
         "from the emitted TU (vlib.pyscan: submodules, classes with base, constructors with "
         "types and keyword arguments, methods/static methods with parameter types, names and "
         "defaults, properties, operators, dunder methods, enums with enumerators, variables, "
         "free functions) == records computed from the instantiated model (vlib.refpy); every "
         "module/scope variable is created exactly once before its first use. Non-trivial: "
         "non-global top namespace, ignore hit, Python-keyword or special name, or nesting >= 2.",
    budget={'quick': 64, 'thorough': 1500},
    size=lambda c: len(R.text(c[0])),
    sample_fn=lambda c: {'options': c[1], 'text': R.text(c[0])[:1200]},
    assumptions=["Python keywords = keyword.kwlist of the running interpreter (3.12)",
                 "documented special cases encoded in vlib.refpy: serialize/serializable markers, "
                 "print -> extra __repr__, ipython names -> _repr_x_; gtsam::Values::insert is "
                 "not generated", "typedefs are generated in the namespace of their template; "
                 "`This::X` scoped uses are left to C02"],
)
