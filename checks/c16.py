"""C16 - Multiple interface files and the command-line scripts compose consistently."""
from __future__ import annotations

import os
import re
import shutil
import subprocess
import sys
from dataclasses import replace

from hypothesis import strategies as st

from vlib import gen as G
from vlib import model as M
from vlib import pyscan, wraps
from vlib import render as R
from vlib.runner import REPO, Failure, Spec
from checks import pycommon as PC

TAILS = ['\n', '', ' // trailing comment', ' /* c */', '  ', '\n// last line comment',
         ' // }; class Ghost {};', '\n\n', '\t']
STEMS = ['geometry', 'basis', 'nonlinear', 'part2', 'slam_x', 'b', 'core', 'sfm', 'custom',
         'pauli', 'imu_i', 'i']


def profile():
    return replace(PC.profile(), name='c16', global_typedefs=False, max_items=6)


@st.composite
def link_cases(draw, tier):
    """(d) the parts link into one importable module that behaves like the declarations say:
    an executable-profile module with a C04 call plan, cut into 2..4 interface files."""
    from checks import c04
    c = draw(c04.cases(tier).filter(lambda x: len(x['m'].content) >= 2))
    n = len(c['m'].content)
    k = draw(st.integers(2, min(4, n)))
    cuts = sorted(draw(st.lists(st.integers(1, n - 1), min_size=k - 1, max_size=k - 1,
                                unique=True)))
    stems = list(draw(st.permutations(STEMS)))[:k - 1]
    return {'kind': 'link', 'c04': c, 'cuts': cuts, 'stems': stems}


@st.composite
def cases(draw, tier):
    if draw(st.integers(0, 23 if tier == 'quick' else 11)) == 7:
        return draw(link_cases(tier))
    m = draw(G.modules(profile()).filter(lambda x: len(x.content) >= 1))
    items = list(m.content)
    k = draw(st.integers(1, min(4, len(items))))
    cuts = sorted(draw(st.lists(st.integers(1, max(1, len(items) - 1)), min_size=k - 1,
                                max_size=k - 1, unique=True))) if len(items) > 1 else []
    bounds = [0] + cuts + [len(items)]
    stems = draw(st.permutations(STEMS))
    files = []
    for i in range(len(bounds) - 1):
        part = M.Module(tuple(items[bounds[i]:bounds[i + 1]]))
        text = R.text(part)
        if text.endswith('\n'):
            text = text[:-1]
        tail = draw(st.sampled_from(TAILS))
        sub = draw(st.sampled_from(['', '', 'sub/', 'a b/']))
        name = ('main' if i == 0 else stems[i]) + '.i'
        files.append([sub + name, text + tail])
    paths = PC.ns_paths(m)
    top = '::'.join(draw(st.sampled_from(paths))) if paths and draw(st.booleans()) else ''
    ignore = []
    if draw(st.integers(0, 2)) == 0:
        ignore = draw(st.lists(st.sampled_from(['gtsam::A', 'Foo', 'ns1::Bar<double>', 'B']),
                               min_size=1, max_size=3, unique=True))
    elif draw(st.booleans()):
        # classes the module really has, spelled as the generators compare them
        # (template arguments separated by ', ')
        try:
            from vlib import refinst
            cls = PC.classes_of(refinst.expected(M.observable(m)))
        except Exception:
            cls = []
        multi = [c_ for c_ in cls if ',' in c_['cpp']]
        if multi and draw(st.booleans()):
            cls = multi  # an entry with a comma in it (Pair<A, B>)
        if cls:
            k_ = draw(st.integers(1, min(2, len(cls))))
            for c_ in draw(st.permutations(cls))[:k_]:
                ignore.append(PC.spaced(c_['cpp']) if c_['k'] == 'class'
                              else PC.spaced_inner(c_['cpp']))
    opts = {'top': top, 'ignore': ignore, 'boost': draw(st.booleans())}
    # both scripts read a leading '::' as "already rooted at the global namespace"
    opts['top_cli'] = '::' + top if top and draw(st.integers(0, 2)) == 0 else top
    scripts = draw(st.integers(0, 7 if not any(',' in x for x in ignore) else 1)) == 1
    return {'files': files, 'options': opts, 'scripts': scripts}


def _top_list(top: str):
    """Documented meaning of --top_module_namespaces 'a::b'."""
    return [''] + top.split('::') if top else ['']


def _section(tu, begin, end):
    a = tu.index(begin) + len(begin)
    b = tu.index(end, a)
    return [l.strip() for l in tu[a:b].splitlines() if l.strip()]


def check_link(case):
    from checks import c04
    c = dict(case['c04'], split=(case['cuts'], case['stems']))
    fails = c04.check(c)
    case['_executed'] = c.get('_executed', 0)
    return [Failure('C16.link:' + f.clause.split('.', 1)[1], f.detail) for f in fails]


def check(case):
    if case.get('kind') == 'link':
        return check_link(case)
    out = []
    d = wraps.scratch_dir('c16')
    cwd = os.getcwd()
    try:
        src = os.path.join(d, 'src')
        paths = []
        for rel, text in case['files']:
            p = os.path.join(src, rel)
            os.makedirs(os.path.dirname(p), exist_ok=True)
            with open(p, 'w') as f:
                f.write(text)
            paths.append(p)
        opts = case['options']
        top = _top_list(opts['top'])
        stems = [os.path.splitext(os.path.basename(p))[0] for p in paths[1:]]

        def wrapper():
            return wraps.pybind_wrapper(top=top, ignore=opts['ignore'] or [''],
                                        boost=opts['boost'], module_name='mymod')
        # ---------------- (a) pybind main + sub-modules
        lib = os.path.join(d, 'lib')
        os.makedirs(lib)
        os.chdir(lib)
        main_out = os.path.join(lib, 'mymod.cpp')
        shared = wrapper()  # one wrapper object for the main file and all parts (reuse is supported)
        try:
            shared.wrap(list(paths), main_out)
            main_tu = open(main_out).read()
        except Exception as e:
            main_tu = None
            out.append(Failure('C16.main-raises', '%s: %s' % (type(e).__name__, str(e)[:200])))
        if main_tu is not None:
            decl = _section(main_tu, '// VERIF-SUBDECL-BEGIN', '// VERIF-SUBDECL-END')
            init = _section(main_tu, '// VERIF-SUBINIT-BEGIN', '// VERIF-SUBINIT-END')
            want_decl = ['void %s(py::module_ &);' % s for s in stems]
            want_init = ['%s(m_);' % s for s in stems]
            if [re.sub(r'\s+', ' ', x) for x in decl] != want_decl:
                out.append(Failure('C16.main-declarations', 'declared %s, expected %s' % (
                    decl, want_decl)))
            if init != want_init:
                out.append(Failure('C16.main-invocations', 'invoked %s, expected %s' % (
                    init, want_init)))
            alone = wraps.pybind_text(case['files'][0][1], top=top,
                                      ignore=opts['ignore'] or [''], boost=opts['boost'],
                                      module_name='mymod')
            if pyscan.extract_body(alone) != pyscan.extract_body(main_tu):
                out.append(Failure('C16.main-body', 'main file body differs from wrapping its '
                                   'text alone'))
            head = main_tu[main_tu.index('// VERIF-MODULEDEF'):main_tu.index(
                '// VERIF-SUBINIT-BEGIN')]
            if 'PYBIND11_MODULE(mymod, m_)' not in head:
                out.append(Failure('C16.main-module-def', head[:100]))
        sub_tus = {}
        for p, (rel, text), stem in zip(paths[1:], case['files'][1:], stems):
            try:
                shared.wrap_submodule(p)
                produced = os.path.join(lib, stem + '.cpp')
                tu = open(produced).read()
                sub_tus[stem] = tu
            except Exception as e:
                out.append(Failure('C16.submodule-raises', '%s: %s: %s' % (
                    rel, type(e).__name__, str(e)[:200])))
                continue
            head = tu[tu.index('// VERIF-MODULEDEF'):tu.index('// VERIF-SUBINIT-BEGIN')]
            if re.sub(r'\s+', ' ', head.splitlines()[1]).strip() != \
                    'void %s(py::module_ &m_) {' % stem:
                out.append(Failure('C16.submodule-definition', '%s defines %r' % (
                    rel, head.splitlines()[1][:80])))
            alone = wraps.pybind_text(text, top=top, ignore=opts['ignore'] or [''],
                                      boost=opts['boost'], module_name='x')
            if pyscan.extract_body(alone) != pyscan.extract_body(tu):
                out.append(Failure('C16.submodule-body', '%s: body differs from wrapping its '
                                   'text alone' % rel))
            if _section(alone, '// VERIF-HEAD-BEGIN', '// VERIF-HEAD-END') != \
                    _section(tu, '// VERIF-HEAD-BEGIN', '// VERIF-HEAD-END'):
                out.append(Failure('C16.submodule-body', '%s: includes / exports differ from '
                                   'wrapping its text alone' % rel))
            if _section(tu, '// VERIF-SUBDECL-BEGIN', '// VERIF-SUBDECL-END') or \
                    _section(tu, '// VERIF-SUBINIT-BEGIN', '// VERIF-SUBINIT-END'):
                out.append(Failure('C16.submodule-definition', '%s declares / invokes '
                                   'initialisers itself' % rel))
        # ---------------- (b) MATLAB: list of files == one file with the declarations in sequence
        try:
            listed = wraps.matlab_tree([t for _, t in case['files']], module_name='mymod',
                                       ignore=opts['ignore'] or [''], boost=opts['boost'])
        except Exception as e:
            listed = 'RAISES %s' % type(e).__name__
        try:
            joined = wraps.matlab_tree(['\n'.join(t for _, t in case['files'])],
                                       module_name='mymod', ignore=opts['ignore'] or [''],
                                       boost=opts['boost'])
        except Exception as e:
            joined = 'RAISES %s' % type(e).__name__
        if listed != joined:
            if isinstance(listed, dict) and isinstance(joined, dict):
                bad = sorted(k for k in set(listed) | set(joined)
                             if listed.get(k) != joined.get(k))
                msg = 'files differing: %s' % bad[:4]
            else:
                msg = '%s vs %s' % (listed if isinstance(listed, str) else 'ok',
                                    joined if isinstance(joined, str) else 'ok')
            out.append(Failure('C16.matlab-file-list', 'wrapping the list differs from wrapping '
                               'the concatenation: ' + msg))
        # ---------------- (c) scripts == library API
        if case.get('scripts'):
            out.extend(_scripts(case, d, paths, stems, main_tu, sub_tus, listed))
    finally:
        os.chdir(cwd)
        shutil.rmtree(d, ignore_errors=True)
    return out


def _scripts(case, d, paths, stems, main_tu, sub_tus, listed):
    out = []
    opts = case['options']
    env = dict(os.environ, PYTHONPATH=REPO, PYTHONHASHSEED='0')
    tpl = os.path.join(d, 'tpl.example')
    with open(tpl, 'w') as f:
        f.write(wraps.PYBIND_TPL)
    work = os.path.join(d, 'cli')
    os.makedirs(work)
    common = ['--module_name', 'mymod', '--top_module_namespaces',
              opts.get('top_cli', opts['top']), '--ignore'] + \
        list(opts['ignore'])
    boost = ['--use-boost-serialization'] if opts['boost'] else []

    def run(args):
        try:
            return subprocess.run([sys.executable] + args, cwd=work, env=env,
                                  capture_output=True, timeout=300, text=True)
        except subprocess.TimeoutExpired:
            raise RuntimeError('INCONCLUSIVE: script did not finish in 300 s')
    py = os.path.join(REPO, 'scripts', 'pybind_wrap.py')
    r = run([py, '--src', ';'.join(paths), '--out', 'main_cli.cpp', '--template', tpl] +
            common + boost)
    produced = os.path.join(work, 'main_cli.cpp')
    if (r.returncode == 0) != (main_tu is not None):
        out.append(Failure('C16.script-vs-api', 'pybind_wrap.py exit %d but library %s: %s' % (
            r.returncode, 'succeeds' if main_tu is not None else 'raises', r.stderr[-200:])))
    elif main_tu is not None and open(produced).read() != main_tu:
        out.append(Failure('C16.script-vs-api', 'pybind_wrap.py output differs from '
                           'PybindWrapper.wrap with the corresponding options'))
    for p, stem in zip(paths[1:2], stems[:1]):
        r = run([py, '--src', p, '--out', 'ignored.cpp', '--template', tpl, '--is_submodule'] +
                common + boost)
        got = os.path.join(work, stem + '.cpp')
        if (r.returncode == 0) != (stem in sub_tus):
            out.append(Failure('C16.script-vs-api', '--is_submodule exit %d vs library' %
                               r.returncode))
        elif stem in sub_tus and (not os.path.exists(got) or open(got).read() != sub_tus[stem]):
            out.append(Failure('C16.script-vs-api', '--is_submodule output differs from '
                               'PybindWrapper.wrap_submodule'))
    mat = os.path.join(REPO, 'scripts', 'matlab_wrap.py')
    r = run([mat, '--src', ';'.join(paths), '--out', 'toolbox'] + common + boost)
    if (r.returncode == 0) != isinstance(listed, dict):
        out.append(Failure('C16.script-vs-api', 'matlab_wrap.py exit %d vs library %s' % (
            r.returncode, 'ok' if isinstance(listed, dict) else listed)))
    elif isinstance(listed, dict):
        got = wraps.read_tree(os.path.join(work, 'toolbox'))
        if got != listed:
            out.append(Failure('C16.script-vs-api', 'matlab_wrap.py toolbox differs from '
                               'MatlabWrapper.wrap'))
    return out


def features(case):
    f = set()
    if case.get('kind') == 'link':
        f.add('link-and-import')
        f.add('link-parts-%d' % (len(case['cuts']) + 1))
        return f
    n = len(case['files'])
    f.add('files-%d' % min(n, 4))
    tails = [t[len(t.rstrip()):] if t.rstrip() != t else '' for _, t in case['files']]
    if n >= 2 and any(not t.endswith('\n') for _, t in case['files'][:-1]):
        f.add('non-newline-tail-before-next-file')
    if any('//' in t.splitlines()[-1] for _, t in case['files'][:-1] if t.strip()):
        f.add('trailing-line-comment')
    o = case['options']
    nd = sum([bool(o['top']), bool(o['ignore']), bool(o['boost'])])
    if nd >= 2:
        f.add('options>=2')
    if o['top']:
        f.add('top-depth-%d' % min(3, o['top'].count('::') + 1))
    if case.get('scripts'):
        f.add('scripts')
        if o.get('top_cli', o['top']) != o['top']:
            f.add('scripts-rooted-top-spelling')
    return f


def _describe(c):
    if c.get('kind') == 'link':
        from checks import c04
        return {'kind': 'link', 'c04': c04.describe(c['c04']), 'cuts': c['cuts'],
                'stems': c['stems']}
    return c


def _from_replay(o):
    if o.get('kind') == 'link':
        from checks import c04
        return {'kind': 'link', 'c04': c04.from_replay(o['c04']), 'cuts': o['cuts'],
                'stems': o['stems']}
    return o


SPEC = Spec(
    pid='C16',
    strategy=lambda tier: cases(tier),
    check=check,
    describe=lambda c: _describe(c),
    from_replay=lambda o: _from_replay(o),
    key=lambda c: repr(_describe(c)),
    features=features,
    nontrivial=lambda c, f: 'non-newline-tail-before-next-file' in f or 'options>=2' in f or
    'link-and-import' in f,
    rule="Hypothesis draws a semantic-profile module, splits it at drawn top-level boundaries "
         "into 1..4 files (main + sub-modules, some in sub-directories or a directory with a "
         "space), gives every file a drawn tail (newline, nothing, '// comment' without newline, "
         "'/* */', blanks, a comment containing code) and draws options (top namespace depth "
         "0..3, ignore 0..3 entries, serialization). Oracles: (a) the main TU declares and "
         "invokes exactly one initialiser per additional file, in list order, and its body is "
         "what wrapping the main text alone gives; each sub-module TU defines `void "
         "<stem>(py::module_ &m_)` around exactly the body that wrapping its text alone gives; "
         "(b) MATLAB wrap(list) == wrap(one file holding the texts joined by newlines), all "
         "files byte-identical; (c) for 1 in 8 cases the two scripts run as subprocesses "
         "(--src a;b;c, --top_module_namespaces, --ignore, --is_submodule, "
         "--use-boost-serialization, --template) and must produce byte-identical files to the "
         "library calls (and fail iff they fail). Non-trivial: a non-last file without final "
         "newline, or >= 2 non-default options, or a link case. (d) 1 in 24 cases (quick; 1 in "
         "12 thorough) is an executable-profile module with a C04 call plan, cut into 2..4 "
         "files (the last part is the main file: initialisers run before the main body, so "
         "registration order equals declaration order), wrapped by one PybindWrapper through "
         "wrap / wrap_submodule, each TU compiled separately against the mock library, linked "
         "into one extension module, imported in a fresh CPython and driven by the plan; every "
         "call must leave the predicted trace and result (C04's oracle).",
    budget={'quick': 24, 'thorough': 600},
    size=lambda c: sum(len(t) for _, t in c['files']) if 'files' in c else
    len(R.text(c['c04']['m'])),
    sample_fn=lambda c: _describe(c) if 'files' in c else
    {'kind': 'link', 'cuts': c['cuts'], 'stems': c['stems'], 'text': R.text(c['c04']['m'])[:800],
     'n_steps': len(c['c04']['plan'])},
    shrink_budget=60,
)
