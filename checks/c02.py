"""C02 - Template instantiation is exact, capture-free substitution."""
from vlib import model as M
from vlib.runner import Spec
from checks import instcommon as IC
from vlib import reader

NONTRIVIAL = {'param-depth-2', 'param-depth-3', 'param-scoped', 'lookalike-identifier',
              'param-qualified', 'this'}


def from_replay(obj):
    if 'model' in obj:
        return (M.from_json(obj['model']), obj['text'])
    return (reader.read(obj['text']), obj['text'])


SPEC = Spec(
    pid='C02',
    strategy=IC.strategy,
    check=lambda c: IC.run(c, ('C02',)),
    describe=lambda c: {'model': M.to_json(c[0]), 'text': c[1]},
    from_replay=from_replay,
    key=lambda c: c[1],
    features=IC.features,
    nontrivial=lambda c, f: bool(f & NONTRIVIAL),
    rule="Hypothesis builds modules with class / member / function templates, typedefs and "
         "helper types; every template parameter is placed at drawn positions (whole type, "
         "template argument at depth 1..4, scoped T::X, under const/*/@/&, in ctor/method/"
         "static/operator arguments, returns incl. pairs, properties, base class; `This`). "
         "Oracle: to_cpp() of every type of every instantiated member == reference capture-free "
         "structural substitution on the model (vlib.refinst), names and default texts equal. "
         "Non-trivial: a parameter occurs at depth>=2, scoped, qualified, next to a look-alike "
         "identifier, or `This` is used. Distinct = distinct rendered text.",
    budget={'quick': 64, 'thorough': 1500},
    size=lambda c: len(c[1]),
    sample_fn=lambda c: c[1],
    assumptions=["reference substitution semantics: a type node is a parameter occurrence iff it "
                 "has no namespace prefix and no template arguments and its name equals a "
                 "parameter; T::X iff the first namespace component equals a parameter"],
)
