"""C18 - The MATLAB runtime header converts values without loss.

The real /repo/matlab.h is compiled (unmodified) with a mock MEX runtime and stand-in GTSAM
containers into a shared object and driven through ctypes.
"""
from __future__ import annotations

import ctypes
import hashlib
import math
import os
import struct
import subprocess

from hypothesis import strategies as st

from vlib.runner import REPO, ROOT, Failure, Spec

MOCK = os.path.join(ROOT, 'vlib', 'mexmock')
BUILD = os.path.join(ROOT, 'build', 'c18')
_lib = None

CLS = {'logical': 3, 'char': 4, 'double': 6, 'single': 7, 'int8': 8, 'uint8': 9, 'int16': 10,
       'uint16': 11, 'int32': 12, 'uint32': 13, 'int64': 14, 'uint64': 15}
KINDS = {'bool': 0, 'char': 1, 'uchar': 2, 'int': 3, 'size_t': 4, 'double': 5, 'vector': 6,
         'matrix': 7, 'string': 8}


def lib():
    """Build (once per content of matlab.h + mock sources) and load the shim library."""
    global _lib
    if _lib is not None:
        return _lib
    srcs = [os.path.join(REPO, 'matlab.h')] + [os.path.join(dp, f) for dp, _, fn in os.walk(MOCK)
                                               for f in sorted(fn)]
    h = hashlib.sha1()
    for p in sorted(srcs):
        h.update(open(p, 'rb').read())
    so = os.path.join(BUILD, 'libc18_%s.so' % h.hexdigest()[:12])
    if not os.path.exists(so):
        os.makedirs(BUILD, exist_ok=True)
        tmp = so + '.%d.tmp' % os.getpid()
        cmd = ['g++', '-std=c++17', '-O0', '-g', '-fPIC', '-shared', '-w', '-I' + MOCK,
               '-I' + REPO, '-o', tmp, os.path.join(MOCK, 'c18_shim.cpp'),
               os.path.join(MOCK, 'mexmock.cpp')]
        r = subprocess.run(cmd, capture_output=True, text=True)
        if r.returncode != 0:
            raise RuntimeError('cannot build matlab.h shim:\n' + r.stderr[-3000:])
        os.replace(tmp, so)
    L = ctypes.CDLL(so)
    L.rt_double.argtypes = [ctypes.c_double, ctypes.POINTER(ctypes.c_double)]
    L.rt_size_t.argtypes = [ctypes.c_ulonglong, ctypes.POINTER(ctypes.c_ulonglong)]
    L.h_new.restype = ctypes.c_long
    L.h_use_count.restype = ctypes.c_long
    L.h_use_count.argtypes = [ctypes.c_long]
    L.h_drop_owner.argtypes = [ctypes.c_long]
    L.h_wrap.argtypes = [ctypes.c_long, ctypes.c_int, ctypes.POINTER(ctypes.c_void_p)]
    L.h_object_address.restype = ctypes.c_void_p
    L.h_object_address.argtypes = [ctypes.c_void_p]
    L.h_unwrap_shared.argtypes = [ctypes.c_void_p, ctypes.POINTER(ctypes.c_long),
                                  ctypes.POINTER(ctypes.c_long), ctypes.POINTER(ctypes.c_void_p)]
    L.h_unwrap_ptr.argtypes = [ctypes.c_void_p, ctypes.POINTER(ctypes.c_void_p)]
    L.h_release.argtypes = [ctypes.c_void_p]
    L.live_objects.restype = ctypes.c_long
    L.h_init()
    _lib = L
    return L


SPECIAL_D = [0.0, -0.0, 1.0, -1.0, float('inf'), float('-inf'), float('nan'), 5e-324,
             -5e-324, 1.7976931348623157e308, 2.2250738585072014e-308, 2 ** 53 + 1.0, 1e-9,
             0.1, -9.81, 2 ** 31, -2 ** 31 - 1.0]
doubles = st.one_of(st.sampled_from(SPECIAL_D), st.floats(allow_nan=True, allow_infinity=True))


@st.composite
def cases(draw, tier):
    kind = draw(st.sampled_from(['scalar', 'handles', 'scalar', 'matrix', 'reject', 'scalar',
                                 'vector', 'string', 'accept']))
    if kind == 'scalar':
        t = draw(st.sampled_from(['int', 'size_t', 'double', 'char', 'uchar', 'bool']))
        v = {'bool': st.integers(0, 1), 'char': st.integers(-128, 127),
             'uchar': st.integers(0, 255),
             'int': st.one_of(st.sampled_from([-2 ** 31, 2 ** 31 - 1, -1, 0, 1, 255, 256,
                                               -129, 65536]),
                              st.integers(-2 ** 31, 2 ** 31 - 1)),
             'size_t': st.one_of(st.sampled_from([0, 1, 2 ** 31, 2 ** 32 - 1, 2 ** 32,
                                                  2 ** 53 + 1, 2 ** 63, 2 ** 64 - 1]),
                                 st.integers(0, 2 ** 64 - 1)),
             'double': doubles}[t]
        return {'kind': 'scalar', 'type': t, 'value': draw(v)}
    if kind == 'string':
        s = draw(st.text(st.characters(min_codepoint=1, max_codepoint=127), max_size=64))
        return {'kind': 'string', 'value': s}
    if kind == 'vector':
        which = draw(st.sampled_from(['Vector', 'Vector', 'Point2', 'Point3']))
        n = {'Vector': draw(st.integers(0, 64)), 'Point2': 2, 'Point3': 3}[which]
        return {'kind': 'vector', 'which': which,
                'value': [draw(doubles) for _ in range(n)]}
    if kind == 'matrix':
        m, n = draw(st.integers(0, 8)), draw(st.integers(0, 8))
        return {'kind': 'matrix', 'm': m, 'n': n,
                'value': [draw(doubles) for _ in range(m * n)]}
    if kind == 'reject':
        t = draw(st.sampled_from(['bool', 'char', 'uchar', 'int', 'size_t', 'double', 'vector',
                                  'matrix', 'string', 'vector']))
        if t in ('bool', 'char', 'uchar', 'int', 'size_t', 'double'):
            m, n = draw(st.sampled_from([(0, 0), (1, 0), (0, 1), (1, 2), (2, 1), (2, 2), (3, 1),
                                         (1, 5), (4, 3)]))
            cls = draw(st.sampled_from(['double', 'int32', 'uint64', 'logical', 'uint8', 'char']))
        elif t == 'vector':
            if draw(st.booleans()):
                m, n = draw(st.sampled_from([(1, 2), (2, 2), (3, 4), (1, 5), (0, 2)]))
                cls = 'double'
            else:
                m, n = draw(st.sampled_from([(3, 1), (1, 1), (0, 1)]))
                cls = draw(st.sampled_from(['int32', 'uint64', 'logical', 'single', 'char',
                                            'uint8']))
        elif t == 'matrix':
            m, n = draw(st.sampled_from([(2, 2), (1, 1), (3, 2), (0, 0)]))
            cls = draw(st.sampled_from(['int32', 'uint64', 'logical', 'single', 'char', 'uint8']))
        else:
            m, n = draw(st.sampled_from([(1, 1), (1, 3), (2, 2)]))
            cls = draw(st.sampled_from(['double', 'int32', 'uint64', 'logical', 'uint8']))
        vals = [float(draw(st.integers(0, 100))) for _ in range(m * n)]
        return {'kind': 'reject', 'type': t, 'cls': cls, 'm': m, 'n': n, 'value': vals}
    if kind == 'accept':
        t = draw(st.sampled_from(['int', 'size_t', 'double', 'uchar', 'bool']))
        cls = draw(st.sampled_from(['double', 'int32', 'uint64', 'int64', 'uint8', 'uint32',
                                    'single', 'logical']))
        hi = {'int': 100, 'size_t': 100, 'double': 100, 'uchar': 100, 'bool': 1}[t]
        if cls == 'logical':
            hi = 1
        return {'kind': 'accept', 'type': t, 'cls': cls, 'value': draw(st.integers(0, hi))}
    ops = []
    n_obj = 0
    n_h = 0
    for _ in range(draw(st.integers(1, 30))):
        choices = ['new']
        if n_obj:
            choices += ['wrap', 'wrap', 'wrap-virtual', 'drop-owner']
        if n_h:
            choices += ['unwrap', 'unwrap-ptr', 'release', 'unwrap']
        op = draw(st.sampled_from(choices))
        if op == 'new':
            ops.append(['new', draw(st.integers(0, 1))])
            n_obj += 1
        elif op in ('wrap', 'wrap-virtual', 'drop-owner'):
            ops.append([op, draw(st.integers(0, n_obj - 1))])
            if op != 'drop-owner':
                n_h += 1
        else:
            ops.append([op, draw(st.integers(0, n_h - 1))])
    return {'kind': 'handles', 'ops': ops}


def bits(x):
    return struct.pack('<d', x)


def same_double(a, b):
    if math.isnan(a) and math.isnan(b):
        return True
    return bits(a) == bits(b)


def check(case):
    """Run the native calls of one case in a forked child: memory corruption or a crash in the
    header under test becomes a reported failure instead of killing the worker."""
    import pickle
    lib()
    r, w = os.pipe()
    pid = os.fork()
    if pid == 0:
        code = 0
        try:
            os.close(r)
            res = [(f.clause, f.detail) for f in check_inproc(case)]
            os.write(w, pickle.dumps(res))
        except BaseException as e:  # noqa
            try:
                os.write(w, pickle.dumps([('HARNESS', repr(e))]))
            except Exception:
                pass
            code = 3
        os._exit(code)
    os.close(w)
    chunks = []
    while True:
        b = os.read(r, 65536)
        if not b:
            break
        chunks.append(b)
    os.close(r)
    _, status = os.waitpid(pid, 0)
    if os.WIFSIGNALED(status):
        return [Failure('C18.crash', 'the conversion crashed with signal %d on %r' % (
            os.WTERMSIG(status), {k: v for k, v in case.items()}))]
    res = pickle.loads(b''.join(chunks)) if chunks else []
    if any(c == 'HARNESS' for c, _ in res):
        raise RuntimeError('harness error in child: %s' % res)
    return [Failure(c, d) for c, d in res]


def check_inproc(case):
    L = lib()
    out = []
    k = case['kind']
    if k == 'scalar':
        t, v = case['type'], case['value']
        if t == 'double':
            o = ctypes.c_double()
            rc = L.rt_double(v, ctypes.byref(o))
            ok = rc == 0 and same_double(o.value, v)
        elif t == 'size_t':
            o = ctypes.c_ulonglong()
            rc = L.rt_size_t(v, ctypes.byref(o))
            ok = rc == 0 and o.value == v
        elif t == 'int':
            o = ctypes.c_int()
            rc = L.rt_int(v, ctypes.byref(o))
            ok = rc == 0 and o.value == v
        elif t == 'char':
            o = ctypes.c_byte()
            rc = L.rt_char(ctypes.c_byte(v), ctypes.byref(o))
            ok = rc == 0 and o.value == v
        elif t == 'uchar':
            o = ctypes.c_ubyte()
            rc = L.rt_uchar(ctypes.c_ubyte(v), ctypes.byref(o))
            ok = rc == 0 and o.value == v
        else:
            o = ctypes.c_ubyte()
            rc = L.rt_bool(ctypes.c_ubyte(v), ctypes.byref(o))
            ok = rc == 0 and o.value == v
        if not ok:
            out.append(Failure('C18.scalar-roundtrip', '%s %r -> rc=%d value %r' % (
                t, v, rc, getattr(o, 'value', None))))
    elif k == 'string':
        s = case['value'].encode('latin-1')
        buf = ctypes.create_string_buffer(256)
        rc = L.rt_string(s, buf, 256)
        if rc != 0 or buf.value != s:
            out.append(Failure('C18.string-roundtrip', '%r -> rc=%d %r' % (s, rc, buf.value)))
    elif k == 'vector':
        v = case['value']
        n = len(v)
        arr = (ctypes.c_double * max(n, 1))(*v)
        res = (ctypes.c_double * max(n, 1))()
        info = (ctypes.c_int * 3)()
        rc = L.rt_vector(arr, n, res, info, {'Vector': 0, 'Point2': 2, 'Point3': 3}[case['which']])
        if rc != 0 or info[0] != n or not all(same_double(res[i], v[i]) for i in range(n)):
            out.append(Failure('C18.vector-roundtrip', '%s %r -> rc=%d len %d %r' % (
                case['which'], v, rc, info[0], list(res)[:n])))
        elif (info[1], info[2]) != (n, 1):
            out.append(Failure('C18.vector-shape', 'MATLAB array is %dx%d for a vector of %d' % (
                info[1], info[2], n)))
    elif k == 'matrix':
        m, n, v = case['m'], case['n'], case['value']
        cnt = max(m * n, 1)
        arr = (ctypes.c_double * cnt)(*v)
        res = (ctypes.c_double * cnt)()
        raw = (ctypes.c_double * cnt)()
        shape = (ctypes.c_int * 4)()
        rc = L.rt_matrix(arr, m, n, res, shape, raw)
        if rc != 0 or (shape[0], shape[1]) != (m, n) or \
                not all(same_double(res[i], v[i]) for i in range(m * n)):
            out.append(Failure('C18.matrix-roundtrip', '%dx%d %r -> rc=%d %dx%d %r' % (
                m, n, v, rc, shape[0], shape[1], list(res)[:m * n])))
        elif (shape[2], shape[3]) != (m, n) and m * n > 0:
            out.append(Failure('C18.matrix-shape', 'MATLAB array is %dx%d for a %dx%d matrix' % (
                shape[2], shape[3], m, n)))
        elif not all(same_double(raw[j * m + i], v[i * n + j]) for i in range(m)
                     for j in range(n)):
            out.append(Failure('C18.matrix-positions', 'element positions of the MATLAB array '
                               'differ from the matrix for %dx%d' % (m, n)))
    elif k in ('reject', 'accept'):
        t = case['type']
        if k == 'accept':
            m = n = 1
            vals = [float(case['value'])]
        else:
            m, n, vals = case['m'], case['n'], case['value']
        arr = (ctypes.c_double * max(len(vals), 1))(*vals)
        res = (ctypes.c_double * 64)()
        cnt = ctypes.c_int()
        rc = L.unwrap_of(KINDS[t], CLS[case['cls']], m, n, arr, res, ctypes.byref(cnt))
        if k == 'reject' and rc == 0:
            out.append(Failure('C18.error-not-reported', 'unwrap<%s> of a %dx%d %s array '
                               'yields a value (%r) instead of an error' % (
                                   t, m, n, case['cls'], list(res)[:max(cnt.value, 1)][:4])))
        if k == 'accept' and (rc != 0 or res[0] != float(case['value'])):
            out.append(Failure('C18.scalar-conversion', 'unwrap<%s> of %s scalar %r -> rc=%d %r'
                               % (t, case['cls'], case['value'], rc, res[0])))
    else:
        out.extend(run_handles(L, case['ops']))
    return out


def run_handles(L, ops):
    out = []
    base_live = L.live_objects()
    objs = []      # {'id', 'owner': bool}
    handles = []   # {'h': c_void_p, 'obj': index, 'live': bool}

    def expect(where):
        # live C++ objects == objects that still have an owner or a live handle
        alive = sum(1 for i, o in enumerate(objs)
                    if o['owner'] or any(h['live'] and h['obj'] == i for h in handles))
        got = L.live_objects() - base_live
        if got != alive:
            out.append(Failure('C18.handle-lifetime', '%s: %d live C++ objects, model says %d' %
                               (where, got, alive)))
            return False
        return True

    for step, (op, arg) in enumerate(ops):
        where = 'step %d %s(%d)' % (step, op, arg)
        if op == 'new':
            objs.append({'id': L.h_new(arg), 'owner': True, 'derived': arg})
        elif op in ('wrap', 'wrap-virtual'):
            o = objs[arg]
            if not o['owner']:
                handles.append({'h': None, 'obj': arg, 'live': False})
                continue  # nothing on the C++ side to wrap from
            h = ctypes.c_void_p()
            rc = L.h_wrap(o['id'], 1 if op == 'wrap-virtual' else 0, ctypes.byref(h))
            if rc != 0:
                out.append(Failure('C18.handle-wrap', '%s: wrap_shared_ptr reports an error' %
                                   where))
                break
            handles.append({'h': h, 'obj': arg, 'live': True})
        elif op == 'drop-owner':
            if objs[arg]['owner']:
                L.h_drop_owner(objs[arg]['id'])
                objs[arg]['owner'] = False
        else:
            hd = handles[arg]
            if not hd['live']:
                continue
            o = objs[hd['obj']]
            if op == 'unwrap':
                i, uc, ad = ctypes.c_long(), ctypes.c_long(), ctypes.c_void_p()
                rc = L.h_unwrap_shared(hd['h'], ctypes.byref(i), ctypes.byref(uc),
                                       ctypes.byref(ad))
                want_uc = (1 if o['owner'] else 0) + sum(
                    1 for x in handles if x['live'] and x['obj'] == hd['obj'])
                if rc != 0 or i.value != o['id'] or ad.value != L.h_object_address(hd['h']):
                    out.append(Failure('C18.handle-identity', '%s: unwrap_shared_ptr gives '
                                       'object %d (rc=%d), handle was made for %d' % (
                                           where, i.value, rc, o['id'])))
                    break
                if uc.value != want_uc:
                    out.append(Failure('C18.handle-lifetime', '%s: use_count %d, model %d' % (
                        where, uc.value, want_uc)))
                    break
            elif op == 'unwrap-ptr':
                ad = ctypes.c_void_p()
                rc = L.h_unwrap_ptr(hd['h'], ctypes.byref(ad))
                if rc != 0 or ad.value != L.h_object_address(hd['h']):
                    out.append(Failure('C18.raw-pointer-identity', '%s: unwrap_ptr returns %s, '
                                       'the object lives at %s' % (
                                           where, ad.value, L.h_object_address(hd['h']))))
                    break
            elif op == 'release':
                rc = L.h_release(hd['h'])
                hd['live'] = False
                if rc != 0:
                    out.append(Failure('C18.handle-release', where))
                    break
        if not expect(where):
            break
    # clean up: release everything that is left
    for hd in handles:
        if hd['live']:
            L.h_release(hd['h'])
            hd['live'] = False
    for o in objs:
        if o['owner']:
            L.h_drop_owner(o['id'])
            o['owner'] = False
    if not out and L.live_objects() != base_live:
        out.append(Failure('C18.handle-lifetime', 'after releasing every handle and owner %d '
                           'objects are still alive' % (L.live_objects() - base_live)))
    return out


def features(case):
    f = {case['kind']}
    k = case['kind']
    if k == 'scalar':
        f.add('scalar-' + case['type'])
        v = case['value']
        if case['type'] in ('int', 'char') and v < 0:
            f.add('negative-integer')
        if case['type'] == 'size_t' and v >= 2 ** 31:
            f.add('integer>=2^31')
        if case['type'] == 'double' and (math.isnan(v) or math.isinf(v)):
            f.add('non-finite')
    if k == 'matrix':
        if case['m'] != case['n'] and case['m'] > 1 and case['n'] > 1:
            f.add('non-square-matrix')
        if case['m'] == 0 or case['n'] == 0:
            f.add('empty-matrix')
    if k == 'vector' and not case['value']:
        f.add('empty-vector')
    if k == 'handles':
        ops = case['ops']
        per = {}
        for op, a in ops:
            if op in ('wrap', 'wrap-virtual'):
                per[a] = per.get(a, 0) + 1
        if any(v >= 2 for v in per.values()):
            f.add('two-handles-one-object')
        if any(op == 'wrap-virtual' for op, _ in ops):
            f.add('virtual-wrap')
        if any(op == 'unwrap-ptr' for op, _ in ops):
            f.add('raw-pointer')
    if k == 'reject':
        f.add('reject-' + case['type'])
    return f


SPEC = Spec(
    pid='C18',
    strategy=lambda tier: cases(tier),
    check=check,
    describe=lambda c: c,
    from_replay=lambda o: o,
    key=lambda c: repr(sorted(c.items(), key=lambda kv: kv[0])),
    features=features,
    nontrivial=lambda c, f: bool(f & {'negative-integer', 'integer>=2^31', 'non-finite',
                                      'non-square-matrix', 'two-handles-one-object',
                                      'empty-matrix', 'reject', 'string'}),
    rule="The unmodified /repo/matlab.h + mock MEX runtime (vlib/mexmock) is built into a "
         "shared object (rebuilt whenever matlab.h changes) and driven through ctypes. "
         "Hypothesis draws: (a) scalar round trips unwrap<T>(wrap<T>(v)) for bool, char, "
         "unsigned char, int (full range, extremes), size_t (to 2^64-1), double (specials, "
         "NaN/inf, denormals; bit compare); strings (bytes 1..127, length 0..64); Vector "
         "(0..64), Point2, Point3; Matrix 0..8 x 0..8 with shape and element positions of the "
         "MATLAB array checked; (b) unwrap<scalar T> of non-1x1 arrays of several classes, "
         "unwrap<Vector|Matrix> of non-double arrays, unwrap<Vector> of m x n (n != 1), "
         "unwrap<string> of non-char arrays must report an error; scalars of other numeric "
         "classes must convert; (c) sequences of new / wrap (plain and RTTI path) / "
         "unwrap_shared_ptr / unwrap_ptr / release / drop-owner over instrumented objects with "
         "a model of owners and handles: identity of the unwrapped object, use_count and the "
         "live-object counter after every step, nothing alive at the end. Non-trivial: negative "
         "or >= 2^31 integers, non-finite doubles, non-square or empty matrices, rejections, "
         "strings, >= 2 handles on one object.",
    budget={'quick': 320, 'thorough': 12000},
    size=lambda c: len(repr(c)),
    sample_fn=lambda c: c,
    assumptions=["mock MEX API semantics per MathWorks documentation (vlib/mexmock/mex.h); "
                 "gtsam::Vector/Matrix/Point2/Point3 are dynamic double containers (no Eigen "
                 "here)", "strings are byte strings without NUL (mxCreateString takes a C string)",
                 "release of a handle = what the generated destructor routine does (delete the "
                 "heap shared_ptr stored in the handle)"],
)
