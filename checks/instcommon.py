"""Shared by C02 / C08 / C13: the instantiation domain and the model-vs-tree comparison."""
from __future__ import annotations

from dataclasses import replace

from vlib import findings
from vlib import gen as G
from vlib import instcmp, instproj, refinst
from vlib import model as M
from vlib import render as R
from vlib.runner import Failure


def profile():
    return replace(
        G.SEMANTIC, name='inst', template_modes=('all', 'all', 'all', 'none'),
        class_template_odds=1, member_template_odds=2, max_items=4, max_members=4,
        includes=False, variables=True, enums=True, ns_depth=2, type_depth=4,
        same_typedef_name_other_ns=True, typedef_weight=3, reopen_ns=True, colliding_member_insts=True,
        scoped_needs_plain_arg=findings.is_open('F-4-scoped-templated-arg'))


def strategy(tier):
    return G.modules(profile()).map(lambda m: (m, R.text(m)))


def run(case, prefix):
    """-> failures whose clause starts with one of `prefix`."""
    m, text = case
    try:
        exp = refinst.expected(M.observable(m))
    except refinst.RefError as e:
        raise AssertionError('generator produced a model outside the instantiation domain: %s'
                             % e)
    try:
        tree = instproj.instantiate(text)
    except Exception as e:
        return [Failure('C08.instantiation-raises',
                        '%s: %s' % (type(e).__name__, str(e)[:300]))] \
            if 'C08' in prefix else []
    act = instproj.p_scope(tree)
    fails = instcmp.compare(exp, act)
    return [f for f in fails if f.clause.split('.')[0] in prefix]


def features(case):
    m, _ = case
    f = set()
    for path, it in M.iter_items(m):
        if isinstance(it, M.Typedef):
            f.add('typedef')
        tpl = getattr(it, 'template', None)
        if tpl is not None and all(p.insts for p in tpl.params):
            n = 1
            for p in tpl.params:
                n *= len(p.insts)
            if n >= 4:
                f.add('product>=4')
            names = tpl.names()
            if isinstance(it, M.Class):
                for x in it.members:
                    if getattr(x, 'template', None):
                        f.add('class-x-member-product')
                        names = names + x.template.names()
            for t in M.all_types(it):
                for d, s in _walk_depth(t, 1):
                    if not s.ns and not s.targs and s.name in names:
                        f.add('param-depth-%d' % min(d, 3))
                        if s.const or s.ptr:
                            f.add('param-qualified')
                    if s.ns and s.ns[0] in names:
                        f.add('param-scoped')
                    if s.name not in names and any(n in s.name for n in names):
                        f.add('lookalike-identifier')
                    if s.name == 'This' or (s.ns and s.ns[0] == 'This'):
                        f.add('this')
    return f


def _walk_depth(t, d):
    yield d, t
    for a in t.targs:
        yield from _walk_depth(a, d + 1)
