"""C05 - MATLAB call-site ids and the MEX dispatch table always agree."""
from __future__ import annotations

import collections

from vlib import matscan
from vlib.refmat import canon, family_key
from vlib.runner import Failure, Spec
from checks import matcommon as MC


def unwrap_family(u: matscan.Unwrap) -> str:
    t = u.targ.replace(' ', '')
    if '<' in t:
        return 'TEMPLATED'  # the MATLAB name of a templated type is a label only
    k = family_key(t)       # the guard depends on the unqualified type name only
    return {'int': 'numeric', 'size_t': 'numeric', 'double': 'double', 'Vector': 'double',
            'Matrix': 'double', 'Point2': 'double', 'Point3': 'double', 'bool': 'logical',
            'string': 'char', 'char': 'char', 'unsignedchar': 'unsignedchar'}.get(k, k)


def check(case):
    try:
        exp, tree, files, w = MC.generate(case)
    except matscan.MatScanError as e:
        return [Failure('C05.unscannable', str(e)[:300])]
    except Exception as e:
        return [Failure('C05.generator-raises', '%s: %s' % (type(e).__name__, str(e)[:300]))]
    out = []
    sites = [s for mf in files.values() for s in mf.sites]
    ids = [s.id for s in sites]
    dup = [i for i, n in collections.Counter(ids).items() if n > 1]
    if dup:
        out.append(Failure('C05.id-reused', 'ids used at more than one call site: %s' % dup[:5]))
    n = len(set(ids))
    if sorted(set(ids)) != list(range(n)):
        out.append(Failure('C05.ids-not-contiguous', 'call-site ids %s' % sorted(set(ids))[:40]))
    case_ids = [c[0] for c in w.cases]
    if len(case_ids) != len(set(case_ids)):
        out.append(Failure('C05.case-duplicated', 'switch has duplicate case labels'))
    if set(case_ids) != set(ids):
        out.append(Failure('C05.case-set', 'cases without call site: %s; call sites without '
                           'case: %s' % (sorted(set(case_ids) - set(ids))[:5],
                                         sorted(set(ids) - set(case_ids))[:5])))
    targets = [c[1] for c in w.cases]
    for t in targets:
        if t not in w.routines:
            out.append(Failure('C05.routine-missing', 'case calls undefined routine %s' % t))
    if len(targets) != len(set(targets)):
        out.append(Failure('C05.routine-shared', 'a routine is reachable from several cases'))
    unreachable = sorted(set(w.routines) - set(targets))
    if unreachable:
        out.append(Failure('C05.routine-unreachable', 'routines no case reaches: %s' %
                           unreachable[:5]))
    if w.duplicate_routines:
        out.append(Failure('C05.routine-duplicated', 'defined twice: %s' %
                           w.duplicate_routines[:5]))
    if n != exp['n_ids']:
        out.append(Failure('C05.id-count', '%d ids, the model calls for %d' % (n, exp['n_ids'])))
    # ---- role agreement
    by_id = dict(w.cases)
    cls_by_matlab = {c['matlab']: c for c in exp['classes']}
    for s in sites:
        r = w.routines.get(by_id.get(s.id, ''))
        if r is None:
            continue
        role = MC.routine_role(r)
        want = {'static': 'static-or-function', 'function': 'static-or-function'}.get(s.role,
                                                                                     s.role)
        where = '%s:%s id %d' % (s.file, s.function, s.id)
        if role != want:
            out.append(Failure('C05.role', '%s is a %s call site but routine %s is a %s' % (
                where, s.role, r.name, role)))
            continue
        mf = files[s.file]
        if mf.kind == 'classdef':
            qual = s.file[:-2].replace('+', '').replace('/', '.')
            c = cls_by_matlab.get(qual)
            if c is None:
                continue  # C10 reports unexpected files
            rc = MC.routine_class(r)
            if s.role in ('static',):
                rc = r.call.rsplit('::', 1)[0] if '::' in r.call else ''
            if s.role == 'deserialize' or s.role == 'serialize':
                rc = r.shared
            if canon(rc) != canon(c['cpp']):
                out.append(Failure('C05.class', '%s belongs to %s (%s) but routine %s works on '
                                   '%s' % (where, qual, c['cpp'], r.name, rc)))
                continue
            if s.role in ('collector', 'delete'):
                coll = r.collector_insert or r.collector_erase
                if coll != c['collector']:
                    out.append(Failure('C05.class', '%s: routine uses collector_%s, expected '
                                       'collector_%s' % (where, coll, c['collector'])))
            if s.role == 'method':
                cands = [m for m in c['methods'] if m['name'] == s.function]
                callee = r.call[len('obj->'):]
                if not any(canon(m['cpp']) == canon(callee) for m in cands):
                    out.append(Failure('C05.member', '%s calls obj->%s' % (where, callee)))
            elif s.role == 'static':
                cands = [m for m in c['statics'] if m['name'] == s.function]
                callee = r.call.rsplit('::', 1)[-1]
                if not any(canon(m['cpp'].split('<')[0]) == canon(callee.split('<')[0])
                           for m in cands):
                    out.append(Failure('C05.member', '%s calls %s' % (where, r.call)))
            elif s.role == 'getter':
                target = matscan._strip_wrap(r.outs.get(0, '')) if 0 in r.outs else \
                    str(r.outs.get(-1, ''))
                if 'obj->' + s.function[4:] not in target:
                    out.append(Failure('C05.member', '%s reads %s' % (where, target[:60])))
            elif s.role == 'setter':
                if not r.assigns.startswith('obj->%s =' % s.function[4:]):
                    out.append(Failure('C05.member', '%s runs %s' % (where, r.assigns)))
        else:
            callee = r.call.rsplit('::', 1)[-1]
            if canon(callee.split('<')[0]) != canon(mf.name) and \
                    not callee.startswith(mf.name):
                out.append(Failure('C05.member', '%s calls %s' % (where, r.call)))
        # arity and overload
        if s.role in ('method', 'static', 'function'):
            if s.nargs is not None and r.check_n is not None and s.nargs != r.check_n:
                out.append(Failure('C05.overload', '%s guards %d arguments, routine expects %d'
                                   % (where, s.nargs, r.check_n)))
        if s.role in ('method', 'static', 'function', 'constructor'):
            if s.nargs is not None and s.nargs != len(r.unwraps):
                out.append(Failure('C05.overload', '%s guards %d arguments, routine unwraps %d'
                                   % (where, s.nargs, len(r.unwraps))))
            else:
                fam_site = [family_key(t) if '.' in t or t not in ('numeric', 'double', 'logical', 'char', 'unsigned char') else canon(t) for _, t in sorted(s.isa)]
                fam_rout = [unwrap_family(u) for u in r.unwraps]
                basic = ('numeric', 'double', 'logical', 'char', 'unsignedchar')
                fam_site = [a if b != 'TEMPLATED' or a in basic else 'TEMPLATED'
                            for a, b in zip(fam_site, fam_rout)] \
                    if len(fam_site) == len(fam_rout) else fam_site
                if len(fam_site) == len(fam_rout) and fam_site != fam_rout:
                    out.append(Failure('C05.overload', '%s tests types %s, routine unwraps %s' %
                                       (where, fam_site, fam_rout)))
    return out


SPEC = Spec(
    pid='C05',
    strategy=lambda tier: MC.cases(tier),
    check=check,
    describe=MC.describe,
    from_replay=MC.from_replay,
    key=lambda c: repr(MC.describe(c)['text']) + repr(c['ignore']) + repr(c['boost']),
    features=MC.features,
    nontrivial=lambda c, f: bool(f & {'virtual-not-last', 'two-classes-ctor-defaults',
                                      'properties-then-more-classes'}),
    rule="Hypothesis draws a semantic-profile module stressing what moves the id counter (any "
         "number/order of classes, virtual or not, with/without base, constructors / methods / "
         "static methods with trailing defaults, properties, free-function overloads in several "
         "namespaces, member templates, serialization markers), an ignore list and the "
         "serialization flag. Oracle on the scanned toolbox (vlib.matscan): ids at .m call sites "
         "are unique, contiguous from 0 and equal the case labels; case -> routine is a "
         "bijection onto the defined routines; per id the call site (file => class/function, "
         "enclosing function => member, call pattern => role, guard => arity and argument type "
         "families) and the routine body (class, collector, callee, checkArguments count, unwrap "
         "statements) denote the same class, member, role and overload; the id count equals the "
         "count computed from the model. Non-trivial: a virtual class that is not last, >= 2 "
         "classes whose constructors have defaults, or properties followed by further classes.",
    budget={'quick': 48, 'thorough': 1200},
    size=lambda c: len(MC.describe(c)['text']),
    sample_fn=lambda c: {'text': MC.describe(c)['text'][:1200], 'ignore': c['ignore'],
                         'boost': c['boost']},
    shrink_budget=80,
    assumptions=["the 3-argument 'void' up-cast path is checked textually only (id wiring)"],
)
