"""C09 - Generated pybind11 code compiles against any conforming C++ library."""
from __future__ import annotations

import os
import re
import shutil
import subprocess
import sysconfig
from dataclasses import replace

from hypothesis import strategies as st

from vlib import cxxmock, gen as G, model as M, pyscan, refinst, wraps
from vlib import render as R
from vlib.runner import REPO, Failure, Spec
from checks import pycommon as PC

TPARAMS = ('ZZT', 'ZZU', 'ZZV', 'ZZW', 'ZZK', 'ZZP')
TPL = """#include <pybind11/pybind11.h>
#include <pybind11/operators.h>
#include <pybind11/iostream.h>
#include "vmock.h"
// VERIF-HEAD-BEGIN
{includes}
{boost_class_export}
// VERIF-HEAD-END
using namespace std;
namespace py = pybind11;
// VERIF-SUBDECL-BEGIN
{submodules}
// VERIF-SUBDECL-END
// VERIF-MODULEDEF
{module_def} {{
    m_.doc() = "pybind11 wrapper of {module_name}";
// VERIF-SUBINIT-BEGIN
{submodules_init}
// VERIF-SUBINIT-END
// VERIF-BODY-BEGIN
{wrapped_namespace}
// VERIF-BODY-END
}}
"""


def profile():
    return replace(PC.profile(), name='compilable', compilable=True, tparam_pool=TPARAMS,
                   max_tparams=3, py_keyword_names=True, global_typedefs=True,
                   same_name_other_ns=False)


@st.composite
def cases(draw, tier):
    m = draw(G.modules(profile()))
    items = refinst.expected(M.observable(m))
    opts = draw(PC.options(m, items))
    opts['boost'] = False  # boost headers are not installed
    m = draw(PC.reopen_top(m, opts))
    k = 18 if tier == 'quick' else 12
    return {'m': m, 'opts': opts, 'compile': draw(st.integers(0, k)) == 5}


def gxx(tu: str, header: str, includes):
    d = wraps.scratch_dir('c09')
    try:
        with open(os.path.join(d, 'vmock.h'), 'w') as f:
            f.write(header)
        with open(os.path.join(d, 'tu.cpp'), 'w') as f:
            f.write(tu)
        inc_dir = os.path.join(d, 'lib_headers')
        os.makedirs(inc_dir)
        for inc in includes:  # headers the interface names: the library provides them
            p = os.path.join(inc_dir, inc)
            os.makedirs(os.path.dirname(p), exist_ok=True)
            open(p, 'a').close()
        # -iquote: only for #include "..." so that a library header called "vector" does not
        # shadow the standard one
        cmd = ['g++', '-std=c++17', '-fsyntax-only', '-w', '-iquote', inc_dir, '-I' + d,
               '-I' + os.path.join(REPO, 'pybind11', 'include'),
               '-I' + sysconfig.get_paths()['include'], os.path.join(d, 'tu.cpp')]
        try:
            r = subprocess.run(cmd, capture_output=True, text=True, timeout=900)
        except subprocess.TimeoutExpired:
            raise RuntimeError('INCONCLUSIVE: g++ did not finish in 900 s')
        return r.returncode, r.stderr
    finally:
        shutil.rmtree(d, ignore_errors=True)


def first_error(stderr: str) -> str:
    for l in stderr.splitlines():
        if 'error' in l:
            return re.sub(r'/[^ :]*/(tu\.cpp|vmock\.h)', r'\1', l)[:300]
    return stderr[:300]


def check(case):
    m, opts = case['m'], case['opts']
    text = R.text(m)
    try:
        tu = wraps.pybind_text(text, top=[''] + opts['top'], ignore=opts['ignore'],
                               boost=False, tpl=TPL)
    except Exception as e:
        return [Failure('C09.generator-raises', '%s: %s' % (type(e).__name__, str(e)[:300]))]
    out = []
    body = pyscan.extract_body(tu)
    # (1) no unsubstituted template parameter
    left = sorted(set(re.findall(r'\b(?:%s)\b' % '|'.join(TPARAMS), body)))
    if left:
        line = next(l for l in body.splitlines() if re.search(r'\b%s\b' % left[0], l))
        out.append(Failure('C09.unsubstituted-parameter', 'template parameter %s survives: %s' % (
            left, line.strip()[:160])))
    # (2) well-formed, scannable, complete
    try:
        stmts = pyscan.scan_body(body)
    except pyscan.ScanError as e:
        out.append(Failure('C09.ill-formed', str(e)[:300]))
        stmts = []
    if not tu.rstrip().endswith('}') or '// VERIF-BODY-END' not in tu:
        out.append(Failure('C09.truncated', 'the TU does not end with the template tail'))
    # (3) lambda parameter count == keyword-argument count
    for s in stmts:
        for c in s.calls:
            if c.kind in ('def', 'def_static') and not c.target:
                n = len(c.lam_params) - (1 if c.lam_params and c.lam_params[0][1] == 'self'
                                         else 0)
                if n != len(c.pyargs):
                    out.append(Failure('C09.arg-count', '%s: lambda takes %d arguments, %d '
                                       'py::arg' % (c.pyname, n, len(c.pyargs))))
                if [p[1] for p in c.lam_params if p[1] != 'self'] != [a.name for a in c.pyargs]:
                    out.append(Failure('C09.arg-count', '%s: lambda parameters %s vs keyword '
                                       'arguments %s' % (c.pyname, [p[1] for p in c.lam_params],
                                                         [a.name for a in c.pyargs])))
            elif c.kind == 'init' and len(c.init_types) != len(c.pyargs):
                out.append(Failure('C09.arg-count', 'py::init<%s> with %d py::arg' % (
                    ','.join(c.init_types), len(c.pyargs))))
        if s.kind == 'other':
            out.append(Failure('C09.ill-formed', 'unrecognised statement %r' % s.raw[:100]))
    # (4) names qualified with exactly the declared namespaces
    known = set()
    for path, it in M.iter_items(m):
        if isinstance(it, (M.Func, M.Var)):
            known.add('::'.join(path + (it.name,)))
    for s in stmts:
        if s.kind == 'func':
            for c in s.calls:
                mm = re.search(r'(?:return)?\s*([A-Za-z_][\w:]*?)(?:<.*>)?\(', c.body)
                if mm and mm.group(1) not in known:
                    out.append(Failure('C09.qualification', 'function binding %s calls %s, '
                                       'declared functions: %s' % (c.pyname, mm.group(1),
                                                                   sorted(known)[:6])))
        elif s.kind == 'attr':
            v = re.sub(r'\s+', '', s.value)
            ok_values = set()
            for path, it in M.iter_items(m):
                if isinstance(it, M.Var) and it.name == s.pyname:
                    ok_values.add('::'.join(path + (it.name,)) if it.default is None
                                  else re.sub(r'\s+', '', it.default))
            if v not in ok_values:
                out.append(Failure('C09.qualification', 'variable %s bound to %s, expected one '
                                   'of %s' % (s.pyname, v, sorted(ok_values))))
    # (5) the compiler
    if case.get('compile'):
        header = cxxmock.emit(m)
        incs = [it.header for _, it in M.iter_items(m) if isinstance(it, M.Include)]
        rc, err = gxx(tu, header, incs)
        case['_compiled'] = True
        if rc != 0:
            out.append(Failure('C09.does-not-compile', first_error(err)))
    return out


def features(case):
    m = case['m']
    f = set()
    if case.get('compile'):
        f.add('compiled')
    for path, it in M.iter_items(m):
        if isinstance(it, M.Var) and path:
            f.add('namespaced-variable' + ('-with-initialiser' if it.default else ''))
        if isinstance(it, M.Class):
            if it.parent is not None:
                f.add('inheritance')
            if it.template:
                f.add('class-template')
            for x in it.members:
                if isinstance(x, M.Operator):
                    f.add('operator')
                if isinstance(x, M.Enum):
                    f.add('class-enum')
                for a in getattr(x, 'args', ()):
                    if a.default and any(ch in a.default for ch in '([{"\','):
                        f.add('default-brackets-quotes')
        if isinstance(it, M.Enum):
            f.add('enum')
        for t in M.all_types(it):
            if t.depth() >= 2:
                f.add('nested-template-args')
    if case['opts']['top']:
        f.add('top-namespace')
    if PC.reopened(case['m']):
        f.add('top-path-reopened')
    return f


def describe(case):
    return {'model': M.to_json(case['m']), 'text': R.text(case['m']), 'opts': case['opts'],
            'compile': case.get('compile', False)}


def from_replay(o):
    if 'model' in o:
        m = M.from_json(o['model'])
    else:
        from vlib import reader
        m = reader.read(o['text'])
    return {'m': m, 'opts': o.get('opts', {'top': [], 'ignore': [], 'boost': False}),
            'compile': o.get('compile', True)}


SPEC = Spec(
    pid='C09',
    strategy=lambda tier: cases(tier),
    check=check,
    describe=describe,
    from_replay=from_replay,
    key=lambda c: R.text(c['m']) + repr(c['opts']) + str(c.get('compile')),
    features=features,
    nontrivial=lambda c, f: bool(f & {'namespaced-variable-with-initialiser',
                                      'nested-template-args', 'default-brackets-quotes',
                                      'operator', 'class-enum', 'enum', 'inheritance',
                                      'class-template'}),
    rule="Hypothesis draws modules from the compilable profile (everything a mechanically "
         "generated C++ library can declare: namespaced variables with typed initialisers, nested "
         "template arguments, typed defaults with brackets/quotes, all operators, enums at both "
         "levels, inheritance from plain/templated/foreign bases, class/member/function "
         "templates with parameters from a reserved alphabet, typedefs, forward declarations) and "
         "options. Oracle: on every case - no reserved template parameter survives in the TU, the "
         "TU scans into well-formed binding statements and ends with the template tail, every "
         "lambda's parameters equal its py::arg list, functions / variables are qualified with "
         "exactly the declared namespaces; on a drawn sample (~1 in 19 quick, 1 in 13 thorough) "
         "`g++ -std=c++17 -fsyntax-only` of the TU against the mock library header generated "
         "from the model (vlib.cxxmock) must succeed. Non-trivial: the TU contains one of the "
         "risky constructs; the feature histogram reports how many were compiled.",
    budget={'quick': 48, 'thorough': 1000},
    size=lambda c: len(R.text(c['m'])),
    sample_fn=lambda c: {'text': R.text(c['m'])[:1200], 'opts': c['opts'],
                         'compiled': c.get('compile', False)},
    shrink_budget=25,
    assumptions=["vlib.cxxmock is the conforming library (trusted base); boost serialization is "
                 "not compiled (no Boost here)", "pybind11 itself restricts what can be bound "
                 "(no holders of fundamental types); such shapes are not generated"],
)
