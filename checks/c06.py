"""C06 - MATLAB overload guards, default expansion and C++ marshalling line up."""
from __future__ import annotations

import collections
import re

from vlib import findings, matscan
from vlib.refmat import TypeInfo, canon, family_key, passes_deref, unwrap_mode
from vlib.runner import Failure, Spec
from checks import matcommon as MC
from checks.c05 import unwrap_family

BASIC = ('numeric', 'double', 'logical', 'char', 'unsignedchar')
STRICT = [False]


def _capitalised_args(bare: str) -> bool:
    """Every template argument is named with a capital first letter (open finding F-37: the
    guard spells the arguments unchanged, or mapped to MATLAB types, where the class name
    capitalises them; the two agree only for such arguments)."""
    inner = bare[bare.index('<') + 1:bare.rindex('>')]
    leaves = re.findall(r'(?:[A-Za-z_]\w*::)*([A-Za-z_]\w*)', inner)
    return all(x[:1].isupper() for x in leaves) and not re.search(r'\d+\s*[,>]|<\s*\d', bare)


KIND = ['method']  # what the guards being compared belong to
MODCLS = [{}]  # C++ spelling of the module's own template instantiations -> MATLAB class name


def arg_family(cpp_type: str) -> str:
    t = TypeInfo(cpp_type)
    if '<' in t.bare:
        # an instantiation the toolbox has a class for is tested against that class; the
        # MATLAB name of any other templated type is a label only
        # (constructor and free-function guards map the arguments to MATLAB types: F-37 whatever
        # the arguments are)
        if t.bare in MODCLS[0] and (STRICT[0] or not
                                    findings.is_open('F-37-matlab-guard-name-of-instantiation') or
                                    (_capitalised_args(t.bare) and
                                     KIND[0] in ('method', 'static'))):
            return 'CLASS:' + '|'.join(sorted(MODCLS[0][t.bare]))
        return 'TEMPLATED'
    k = family_key(t.bare)
    # arrays are told apart by shape: Vector n x 1, Point2 2 x 1, Point3 3 x 1
    return {'int': 'numeric', 'size_t': 'numeric', 'double': 'double', 'Vector': 'double:n,1',
            'Matrix': 'double', 'Point2': 'double:2,1', 'Point3': 'double:3,1',
            'bool': 'logical',
            'string': 'char', 'char': 'char', 'unsignedchar': 'unsignedchar'}.get(k, k)


def site_families(s):
    out = []
    for pos_, t in sorted(s.isa):
        c = canon(t)
        sh = getattr(s, 'shape', {}).get(pos_)
        if c == 'double' and sh:
            out.append('double:%s,%s' % (sh.get(1, 'n'), sh.get(2, 'n')))
            continue
        if any(t in names for names in MODCLS[0].values()):
            out.append('CLASS:' + t)
            continue
        if '<' in t and t.rstrip().endswith('>') and not STRICT[0] and \
                findings.is_open('F-37-matlab-guard-name-of-instantiation'):
            out.append('CXX-SPELLING')  # F-37: a C++ spelling where a MATLAB class name belongs
            continue
        out.append(c if c in BASIC else family_key(t))
    return out


def is_enum_type(cpp_type: str, cls) -> bool:
    if cls is None:
        return False
    ti = TypeInfo(cpp_type)
    name = ti.name
    flat, depth = [], 0
    for ch in ti.bare:
        depth += ch == '<'
        if depth == 0:
            flat.append(ch)
        depth -= ch == '>'
    quals = ''.join(flat).split('::')[:-1]
    if name in [e[0] for e in cls['enums']]:
        # a qualified name is the class's enum only if the qualification ends in the class
        # (F-35); `size_t::T`, `ns::T` name something else
        own = {cls['name'], cls['cpp'].split('<')[0].split('::')[-1]}
        if not quals or quals[-1] in own:
            return True
    # ... and the namespace's enum only if it is spelled in that namespace (`K::T` with
    # K = size_t is `size_t::T`, some other type)
    return name in cls.get('ns_enums', []) and (not quals or
                                                list(quals) == list(cls['path']))


def nows(s):
    return re.sub(r'\s+', '', s or '')


def check_overload(site, r, ov, kind, cls, where):
    """All positional facts of one expanded overload against one routine -> problems."""
    probs = []
    ex, om = ov['explicit'], ov['omitted']
    a = len(ex)
    off = 1 if kind == 'method' else 0
    if kind != 'constructor':
        if r.check_n != a:
            probs.append(('C06.arity', '%s: checkArguments expects %s, arity is %d' % (
                where, r.check_n, a)))
        if r.check_minus1 != (kind == 'method'):
            probs.append(('C06.arity', '%s: checkArguments counts %s' % (
                where, 'nargin-1' if r.check_minus1 else 'nargin')))
    if [u.index for u in r.unwraps] != list(range(off, off + a)):
        probs.append(('C06.unwrap-index', '%s: unwraps in[%s], expected in[%d..%d]' % (
            where, [u.index for u in r.unwraps], off, off + a - 1)))
        return probs
    for u, arg in zip(r.unwraps, ex):
        if u.name != arg[1]:
            probs.append(('C06.unwrap-name', '%s: in[%d] bound to %s, expected %s' % (
                where, u.index, u.name, arg[1])))
        t = TypeInfo(arg[0])
        mode = unwrap_mode(t, is_enum_type(arg[0], cls))
        if u.prim != mode:
            probs.append(('C06.unwrap-mode', '%s: %s %s unwrapped with %s, expected %s' % (
                where, arg[0], arg[1], u.prim, mode)))
    want_args = []
    for arg in ex:
        t = TypeInfo(arg[0])
        want_args.append(('*' if passes_deref(t, is_enum_type(arg[0], cls)) else '') + arg[1])
    for arg in om:
        want_args.append(nows(arg[2]))
    if nows(','.join(r.call_args)) != nows(','.join(want_args)):
        probs.append(('C06.call-args', '%s: call passes (%s), expected (%s)' % (
            where, ', '.join(r.call_args), ', '.join(want_args))))
    # callee
    if kind == 'constructor':
        if canon(r.new_class) != canon(cls['cpp']):
            probs.append(('C06.callee', '%s: constructs %s' % (where, r.new_class)))
    elif kind == 'method':
        if canon(r.call) != canon('obj->' + ov['cpp']):
            probs.append(('C06.callee', '%s: calls %s, expected obj->%s' % (where, r.call,
                                                                            ov['cpp'])))
    elif kind == 'static':
        want = cls['cpp'] + '::' + ov['cpp']
        if canon(r.call) != canon(want):
            probs.append(('C06.callee', '%s: calls %s, expected %s' % (where, r.call, want)))
    else:
        want = '::'.join(tuple(ov['path']) + (ov['cpp'],))
        if ov['templated'] and findings.is_open('F-27-matlab-function-template-callee') \
                and not STRICT[0]:
            pass  # excluded while the finding is open (its witness is checked strictly)
        elif canon(r.call) != canon(want):
            probs.append(('C06.callee', '%s: calls %s, expected %s' % (where, r.call, want)))
    # returns
    if kind != 'constructor':
        ret = ov['ret']
        nret = 0 if (ret[1] is None and TypeInfo(ret[0]).name == 'void') else \
            (1 if ret[1] is None else 2)
        outs = sorted(k for k in r.outs if k >= 0)
        if outs != list(range(nret)):
            probs.append(('C06.return', '%s: routine assigns out%s, declared return has %d '
                          'value(s)' % (where, outs, nret)))
        if True:
            if site.nout != nret:
                probs.append(('C06.return', '%s: .m assigns %d outputs, declared return has %d' %
                              (where, site.nout, nret)))
        for k, rt in enumerate([x for x in ret if x is not None][:nret]):
            t = TypeInfo(rt)
            rhs = r.outs.get(k, '')
            if is_enum_type(rt, cls):
                want_prim = 'wrap_enum'
            elif t.shared or t.raw or (t.name not in ('int', 'double', 'bool', 'char',
                                                      'unsignedchar', 'size_t', 'string',
                                                      'Matrix', 'Vector', 'Point2', 'Point3')):
                want_prim = 'wrap_shared_ptr'
            else:
                want_prim = 'wrap<'
            if want_prim == 'wrap_shared_ptr' and t.name in ('Matrix', 'Vector', 'Point2',
                                                             'Point3'):
                continue
            if not rhs.startswith(want_prim):
                probs.append(('C06.return', '%s: out[%d] = %s, expected %s for %s' % (
                    where, k, rhs[:50], want_prim, rt)))
            elif want_prim == 'wrap_enum' and '<' not in rt:
                # the value goes back as an instance of the generated MATLAB enumeration
                mm = re.search(r',\s*"([^"]*)"\s*\)\s*;?\s*$', rhs)
                want_cls = t.bare.replace('::', '.')
                if '::' not in t.bare and cls and t.bare in [e[0] for e in cls['enums']]:
                    # an unqualified name inside the class is the class's own enum
                    want_cls = cls['matlab'] + '.' + t.bare
                elif '::' not in t.bare and cls and t.bare in cls.get('ns_enums', []):
                    # ... or, failing that, the enum of the class's namespace
                    want_cls = '.'.join(list(cls['path']) + [t.bare])
                if mm and mm.group(1) != want_cls:
                    probs.append(('C06.return', '%s: out[%d] is wrapped as MATLAB class %r, the '
                                  'enumeration generated for %s is %r' % (
                                      where, k, mm.group(1), rt, want_cls)))
    return probs


def _compat(x, y):
    """Does the family x scanned from a guard satisfy the declared family y?"""
    if x == y:
        return True
    if x.startswith('CLASS:') and y.startswith('CLASS:') and x[6:] in y[6:].split('|'):
        return True
    if y == 'TEMPLATED' and x.split(':')[0] not in BASIC:
        return True
    if x == 'CXX-SPELLING' and y.startswith('CLASS:'):
        return True
    # a plain (foreign) type that happens to be spelled like one of the module's typedef names
    return x.startswith('CLASS:') and family_key(x[6:]) == y


def _perfect_matching(sites, want):
    """Is there a one-to-one assignment of call sites to declared (arity, families) entries in
    which every site is compatible with its entry (templated types are labels)?"""
    slots = list(want.elements())
    if len(slots) != len(sites):
        return False
    fams = [(s.nargs, site_families(s)) for s in sites]

    def ok(i, j):
        n, fam = fams[i]
        k = slots[j]
        return k[0] == n and len(k[1]) == len(fam) and all(
            _compat(x, y) for x, y in zip(fam, k[1]))
    owner = {}

    def augment(i, seen):
        for j in range(len(slots)):
            if j in seen or not ok(i, j):
                continue
            seen.add(j)
            if j not in owner or augment(owner[j], seen):
                owner[j] = i
                return True
        return False
    return all(augment(i, set()) for i in range(len(sites)))


def check(case):
    STRICT[0] = bool(case.get('strict'))
    from vlib import refmat as _rm
    _rm.STRING_REF_AS_OBJECT[0] = findings.is_open('F-28-matlab-string-ref') and not STRICT[0]
    try:
        exp, tree, files, w = MC.generate(case)
    except matscan.MatScanError as e:
        return [Failure('C06.unscannable', str(e)[:300])]
    except Exception as e:
        return [Failure('C06.generator-raises', '%s: %s' % (type(e).__name__, str(e)[:300]))]
    out = []
    by_id = dict(w.cases)
    MODCLS[0] = {}
    for c in exp['classes']:
        if '<' in c['cpp']:  # an instantiation may exist under several names (list + typedef)
            MODCLS[0].setdefault(c['cpp'], set()).add(c['matlab'])

    def group(sites, overloads, kind, cls, label):
        KIND[0] = kind
        # (1) exactly the expected arities / type families are offered
        want = collections.Counter((len(o['explicit']), tuple(
            arg_family(a[0]) for a in o['explicit'])) for o in overloads)
        got = collections.Counter()
        for s in sorted(sites, key=lambda s: 'TEMPLATED' in str(site_families(s))):
            fam = site_families(s)
            # templated types are labels only: align with the expectation
            cands = [k for k in want if k[0] == s.nargs and len(k[1]) == len(fam) and all(
                _compat(x, y) for x, y in zip(fam, k[1]))]
            exact = [k for k in cands if list(k[1]) == fam]
            # prefer an exact match, then a declared signature not yet used up
            free = [k for k in cands if got[k] < want[k]]
            pick = exact[0] if exact else (free[0] if free else (cands[0] if cands else None))
            got[pick if pick is not None else (s.nargs, tuple(fam))] += 1
        if got != want and _perfect_matching(sites, want):
            got = want  # the greedy alignment above is order-sensitive; a full one exists
        if got != want:
            out.append(Failure('C06.offered-overloads', '%s offers %s, declared (with defaults '
                               'expanded) %s' % (label, sorted(got.elements())[:6],
                                                 sorted(want.elements())[:6])))
            return
        # (2) each site's routine realises one of the declared overloads with that signature
        for s in sites:
            r = w.routines.get(by_id.get(s.id, ''))
            if r is None:
                continue
            fam = site_families(s)
            cands = [o for o in overloads if len(o['explicit']) == s.nargs and all(
                _compat(x, y)
                for x, y in zip(fam, [arg_family(a[0]) for a in o['explicit']]))]
            best = None
            for o in cands:
                probs = check_overload(s, r, o, kind, cls, '%s (id %d)' % (label, s.id))
                if not probs:
                    best = []
                    break
                if best is None or len(probs) < len(best):
                    best = probs
            for clause, detail in (best or []):
                out.append(Failure(clause, detail))

    for c in exp['classes']:
        mf = files.get(c['file'])
        if mf is None:
            continue
        group([s for s in mf.sites if s.role == 'constructor'], c['ctor_overloads'],
              'constructor', c, '%s constructor' % c['matlab'])
        for name, ovs in c['method_overloads'].items():
            group([s for s in mf.sites if s.role == 'method' and s.function == name], ovs,
                  'method', c, '%s.%s' % (c['matlab'], name))
        for name, ovs in c['static_overloads'].items():
            group([s for s in mf.sites if s.role == 'static' and s.function == name], ovs,
                  'static', c, '%s.%s (static)' % (c['matlab'], name))
        # properties
        for ptype, pname, _ in c['props']:
            for s in mf.sites:
                if s.function not in ('get.' + pname, 'set.' + pname):
                    continue
                r = w.routines.get(by_id.get(s.id, ''))
                if r is None:
                    continue
                wh = '%s.%s (id %d)' % (c['matlab'], s.function, s.id)
                if s.role == 'getter' and (r.check_n != 0 or not r.check_minus1):
                    out.append(Failure('C06.arity', '%s: getter expects %s arguments' % (
                        wh, r.check_n)))
                if s.role == 'setter':
                    if r.check_n != 1:
                        out.append(Failure('C06.arity', '%s: setter expects %s' % (wh,
                                                                                   r.check_n)))
                    t = TypeInfo(ptype)
                    en = is_enum_type(ptype, c)
                    mode = unwrap_mode(t, en)
                    if len(r.unwraps) != 1 or r.unwraps[0].index != 1:
                        out.append(Failure('C06.unwrap-index', '%s: setter unwraps %s' % (
                            wh, [u.index for u in r.unwraps])))
                    elif r.unwraps[0].prim != mode:
                        out.append(Failure('C06.unwrap-mode', '%s: %s unwrapped with %s, '
                                           'expected %s' % (wh, ptype, r.unwraps[0].prim, mode)))
                    else:
                        want = 'obj->%s=%s%s;' % (pname, '*' if passes_deref(t, en) else '',
                                                  pname)
                        if nows(r.assigns) != want:
                            out.append(Failure('C06.call-args', '%s: %s, expected %s' % (
                                wh, r.assigns, want)))
    for f, ovs in exp['functions'].items():
        mf = files.get(f)
        if mf is None:
            continue
        group(list(mf.sites), ovs, 'function', None, 'function %s' % f)
    return out


SPEC = Spec(
    pid='C06',
    strategy=lambda tier: MC.cases(tier),
    check=check,
    describe=MC.describe,
    from_replay=MC.from_replay,
    key=lambda c: repr(MC.describe(c)['text']) + repr(c['ignore']) + repr(c['boost']),
    features=MC.features,
    nontrivial=lambda c, f: bool(f & {'defaults', 'three-plus-args', 'pair-return'}),
    rule="Hypothesis draws semantic-profile modules whose constructors, methods, static methods "
         "and free functions (global and namespaced; in plain, templated and virtual classes) "
         "have 0..4 parameters, drawn suffix default masks, every passing mode (primitive, "
         "string, const T&, T&, T*, T@, class by value, class-scoped and namespace enum, "
         "Vector/Matrix, templated types), default texts with commas/brackets/quotes and every "
         "return shape. Oracle (positional facts from vlib.matscan against the instantiated "
         "model): the multiset of (arity, MATLAB type families) offered by the guards of a "
         "callable == the declared overloads with defaults expanded (n..n-k, each once); for each "
         "branch the routine has checkArguments with that count, exactly that many unwrap "
         "statements on in[off..] in declared order, bound to the declared names with the unwrap "
         "primitive of the declared mode; the call passes those names (dereferenced exactly for "
         "by-value objects) followed by the omitted defaults verbatim; the callee is the "
         "declared entity; out[0]/out[1] are assigned from the wrap primitive of the declared "
         "return shape and the .m side assigns as many outputs. Non-trivial: a default, >= 3 "
         "parameters, or a pair return.",
    budget={'quick': 48, 'thorough': 1200},
    size=lambda c: len(MC.describe(c)['text']),
    sample_fn=lambda c: {'text': MC.describe(c)['text'][:1200], 'ignore': c['ignore'],
                         'boost': c['boost']},
    shrink_budget=80,
)
