"""C11 - MEX gateway calls reach the right C++ code and never leak or double-free.

A module from the executable MATLAB profile is wrapped; the generated <module>_wrapper.cpp is
compiled, unmodified, with the real matlab.h, the mock MEX runtime and the instrumented mock
library; a MATLAB-object emulator (vlib.matlab_emu, protocol taken from the generated .m files)
issues a drawn history of calls.  After every step the trace, the results, every collector's
size and the live-object counter are compared with a model of live handles.
"""
from __future__ import annotations

import itertools
import json
import os
import re
import shutil
import subprocess
import sys
from dataclasses import replace

from hypothesis import strategies as st

from vlib import cxxmock, findings, gen as G, model as M, pyexec, wraps
from vlib import render as R
from vlib.cxxmock import h32, sig_of
from vlib.runner import REPO, ROOT, Failure, Spec
from checks import c04, c09

MOCK = os.path.join(ROOT, 'vlib', 'mexmock')
STD_NAMES = ('set', 'get', 'size', 'at', 'equal', 'map', 'list', 'pair', 'min', 'max', 'begin',
             'end', 'move', 'swap', 'find', 'count', 'copy', 'data', 'empty')
BASIC_OK = ('bool', 'char', 'int', 'size_t', 'double', 'string', 'void')


def profile():
    return replace(c04.profile(), name='mex-executable', operators=False, max_items=5,
                   max_members=6, templates=True, class_template_odds=3,
                   member_template_odds=5, py_keyword_names=False, favourite_members=(),
                   identity_methods=True)


def normalise(m):
    """Restrict the drawn module to what a MATLAB session can drive (and what open,
    golden-pinned findings exclude)."""
    def ty(t: M.Type):
        if not t.ns and t.name in ('float', 'unsigned char'):
            t = replace(t, name='double')
        if t.name == 'string' and t.ptr:
            t = replace(t, ptr='')                     # F-28
        return t

    def cls(it):
        if isinstance(it, M.Class):
            members = []
            for x in it.members:
                if isinstance(x, (M.Dunder, M.Operator)):
                    continue
                if isinstance(x, M.Static) and x.template is not None and \
                        findings.is_open('F-34-matlab-static-template-args'):
                    continue
                if isinstance(x, M.Ctor) and len(x.args) == 1 and x.args[0].type.ptr == '' and \
                        x.args[0].type.name in ('This', it.name):
                    continue  # a constructor taking its own class by value is not C++
                if isinstance(x, M.Prop):
                    t = x.type
                    if t.ptr in ('*', '@', '&') and not t.basic and t.name != 'string':
                        x = replace(x, type=replace(t, ptr=''))   # F-12
                    if x.type.const:
                        x = replace(x, type=replace(x.type, const=False))
                if isinstance(x, (M.Method, M.Static)):
                    r = x.ret
                    def fix(t):
                        if t is None:
                            return None
                        if t.ptr in ('@', '&'):
                            t = replace(t, ptr='', const=False)  # by-value / shared returns only
                        if t.ptr == '' and t.const:
                            t = replace(t, const=False)
                        return t
                    x = replace(x, ret=replace(r, t1=fix(r.t1), t2=fix(r.t2)))
                    if x.name in ('serialize', 'serializable', 'print'):
                        continue
                members.append(x)
            it = replace(it, members=tuple(members))
        if isinstance(it, M.Func) and it.template is not None and \
                findings.is_open('F-27-matlab-function-template-callee'):
            return None  # F-27: the routine calls the instantiated name, which does not exist
        if isinstance(it, M.Func):
            r = it.ret
            def fix2(t):
                if t is None:
                    return None
                if t.ptr in ('@', '&'):
                    t = replace(t, ptr='', const=False)
                return replace(t, const=False) if t.ptr == '' else t
            it = replace(it, ret=replace(r, t1=fix2(r.t1), t2=fix2(r.t2)))
        return it
    m = M.map_types(m, ty, skip_templates=False)
    m = M.map_items(m, cls)

    def dedupe(tp):
        if tp is None:
            return None
        return M.Template(tuple(replace(p, insts=tuple(dict.fromkeys(p.insts)))
                                for p in tp.params))

    def tidy(it):
        # float -> double above may have produced duplicate instantiation-list entries
        if isinstance(it, M.Class):
            it = replace(it, template=dedupe(it.template), members=tuple(
                replace(x, template=dedupe(x.template)) if getattr(x, 'template', None) else x
                for x in it.members))
            # ... and members whose signatures now coincide
            it = replace(it, members=tuple(G._distinct_signatures(list(it.members))))
        if isinstance(it, M.Func) and it.name in STD_NAMES:
            # matlab.h does `using namespace std;` and the routine calls a global function
            # unqualified: a library function called `set` would be ambiguous with std::set
            it = replace(it, name=it.name + 'Fn')
        return it
    m = M.map_items(m, tidy)

    def distinct_functions(scope):
        # ... and free functions whose signatures now coincide (or that an omitted default
        # makes ambiguous), per scope
        seen, groups, out = set(), {}, []
        for it in scope.content:
            if isinstance(it, M.Namespace):
                it = replace(it, content=distinct_functions(it))
            elif isinstance(it, M.Func):
                key = (it.name, tuple(replace(a.type, const=False) if a.type.ptr == ''
                                      else a.type for a in it.args))
                if key in seen or G._ambiguous_with_defaults(it.args,
                                                             groups.setdefault(it.name, [])):
                    continue
                seen.add(key)
            out.append(it)
        return tuple(out)
    return M.Module((M.Include('vmock.h'),) + distinct_functions(m))


def weight(cname, classes):
    c = classes[cname]
    w = 1
    if c['parent']:
        w += weight(c['parent'], classes)
    for p in c['props_by_value']:
        w += weight(p, classes)
    return w


@st.composite
def cases(draw, tier):
    m = normalise(draw(G.modules(profile()).filter(lambda x: any(
        isinstance(i, M.Class) and i.template is None and
        any(isinstance(k, M.Ctor) for k in i.members) for _, i in M.iter_items(x)))))
    steps = build_history(m, draw)
    return {'m': m, 'steps': steps}


def matlab_name(path, name):
    return '.'.join(tuple(path) + (name,))


def build_history(m, draw):
    """Steps with predictions; indices refer to handles created by earlier steps."""
    classes = {}   # matlab name -> info
    order = []
    for path, it in M.iter_items(m):
        if isinstance(it, M.Class) and it.template is None:
            mn = matlab_name(path, it.name)
            parent = None
            if it.parent is not None:
                parent = matlab_name(it.parent.ns, it.parent.name)
            classes[mn] = {'decl': it, 'path': path, 'parent': parent,
                           'cpp': '::'.join(path + (it.name,)),
                           'props_by_value': []}
            order.append(mn)
    for mn, c in classes.items():
        for x in c['decl'].members:
            if isinstance(x, M.Prop):
                k = matlab_name(x.type.ns, x.type.name)
                if k in classes and x.type.ptr == '':
                    c['props_by_value'].append(k)
    steps = []
    handles = []   # (var, matlab class) of live handles
    nvar = [0]
    sid = [0]
    P = pyexec.Planner(m, draw)
    P.collect(m, ())

    def chain(mn):
        out = []
        while mn:
            out.append(mn)
            mn = classes[mn]['parent'] if mn in classes else None
        return out

    def value(t: M.Type):
        """-> (encoded MATLAB value, shown form) or None"""
        n = t.name
        if not t.ns and not t.targs:
            if n in ('int',):
                v = draw(st.integers(-500, 500))
                return {'t': 'int', 'v': v}, str(v)
            if n == 'size_t':
                v = draw(st.integers(0, 5000))
                return {'t': 'int', 'v': v}, '%dz' % v
            if n == 'double':
                v = draw(st.integers(-200, 200)) + 0.5
                return {'t': 'float', 'v': v}, ('%g' % v) + 'd'
            if n == 'bool':
                v = draw(st.booleans())
                return {'t': 'bool', 'v': v}, 'true' if v else 'false'
            if n == 'char':
                v = draw(st.sampled_from('abcxyz'))
                return {'t': 'str', 'v': v}, "'%s'" % v
            if n == 'string':
                v = draw(st.text('abc XYZ_019', min_size=1, max_size=8))
                return {'t': 'str', 'v': v}, '"%s"' % v
        mn = matlab_name(t.ns, t.name)
        if mn in classes:
            cands = [h for h in handles if mn in chain(h[1])]
            if not cands:
                return None
            var, hc = draw(st.sampled_from(cands))
            if t.ptr == '':
                return {'t': 'obj', 'ref': var}, 'obj#' + pyexec.WILD
            pre = {'*': 'sp:', '@': 'rp:', '&': ''}[t.ptr]
            if hc != mn:
                return {'t': 'obj', 'ref': var}, pre + 'obj#' + pyexec.WILD
            return {'t': 'obj', 'ref': var}, pre + 'obj#{%s}' % var
        return None

    def result_of(entity, r: M.Ret):
        def one(t, h):
            n = t.name
            if not t.ns and not t.targs:
                if n == 'void':
                    return None
                if n == 'int':
                    return {'t': 'int', 'v': h % 10007 - 5000}
                if n == 'size_t':
                    return {'t': 'int', 'v': h % 10007}
                if n == 'bool':
                    return {'t': 'int', 'v': h & 1}
                if n == 'double':
                    return {'t': 'float', 'v': (h % 4096) + 0.5}
                if n == 'char':
                    return {'t': 'int', 'v': ord('a') + h % 26}
                if n == 'string':
                    return {'t': 'str', 'v': 'ret%d' % (h % 100000)}
            mn = matlab_name(t.ns, t.name)
            if mn in classes:
                return {'t': 'instance', 'cls': mn}
            if '::'.join(t.ns + (t.name,)) in P.enums:
                return {'t': 'enum', 'v': 0}
            return {'t': 'any'}
        h = h32(entity)
        if r.t2 is None:
            o = one(this_t(r.t1), h)
            return [] if o is None else [o]
        return [one(this_t(r.t1), h), one(this_t(r.t2), h + 1)]

    def add(step, expect):
        sid[0] += 1
        step['id'] = sid[0]
        step['expect'] = expect
        steps.append(step)

    cur = [None]  # class whose member is being planned (for `This`)

    def this_t(t):
        if t is not None and not t.ns and t.name == 'This' and cur[0] is not None:
            c_ = classes[cur[0]]
            return replace(t, ns=tuple(c_['path']), name=c_['decl'].name)
        return t

    def call_args(decl_args, count):
        enc, shown = [], []
        for a in decl_args[:count]:
            v = value(this_t(a.type))
            if v is None:
                return None
            enc.append(v[0])
            shown.append(v[1])
        try:
            shown += [pyexec.shown_default(a.type, a.default, P.enum_values)
                      for a in decl_args[count:]]
        except KeyError:
            return None
        return enc, shown

    def arities(decl_args):
        n = len(decl_args)
        k = 0
        while k < n and decl_args[n - 1 - k].default is not None:
            k += 1
        return list(range(n, n - k - 1, -1))

    def returned(res, step, same_as=None):
        stores = []
        for r in res:
            if r and r['t'] == 'instance':
                nvar[0] += 1
                var = 'h%d' % nvar[0]
                handles.append((var, r['cls']))
                stores.append(var)
            else:
                stores.append(None)
        if any(stores):
            step['stores'] = stores
            if same_as is not None and stores[0]:
                step['alias'] = same_as  # a second handle on the object of that handle

    def alias_of(ret, args, cnt, enc, this_name):
        """The handle whose object the mock library hands back (see cxxmock.alias_arg), None if
        it returns a fresh object, False if that cannot be predicted."""
        nm = cxxmock.alias_arg(ret, args, this_name)
        if nm is None:
            return None
        i = [a.name for a in args].index(nm)
        if i >= cnt or enc[i].get('t') != 'obj':
            return False
        return enc[i]['ref']

    nsteps = draw(st.integers(4, 26))
    constructible = [mn for mn in order if any(isinstance(x, M.Ctor) and x.template is None
                                              for x in classes[mn]['decl'].members)]
    funcs = [(path, it) for path, it in M.iter_items(m)
             if isinstance(it, M.Func) and it.template is None]
    func_bad = c04.overlapping([f for _, f in funcs])
    for _ in range(nsteps * 3):
        if len(steps) >= nsteps:
            break
        kinds = ['new', 'new']
        if handles:
            kinds += ['method', 'method', 'method', 'property', 'delete', 'static']
        if funcs:
            kinds.append('function')
        kind = draw(st.sampled_from(kinds))
        if kind == 'new' and constructible:
            mn = draw(st.sampled_from(constructible))
            c = classes[mn]
            cur[0] = mn
            ctors = [x for x in c['decl'].members if isinstance(x, M.Ctor) and x.template is None
                     and id(x) not in c04.overlapping(c['decl'].members)]
            if not ctors:
                continue
            ct = draw(st.sampled_from(ctors))
            cnt = draw(st.sampled_from(arities(ct.args)))
            got = call_args(ct.args, cnt)
            if got is None:
                continue
            nvar[0] += 1
            var = 'h%d' % nvar[0]
            handles.append((var, mn))
            add({'kind': 'new', 'cls': mn, 'args': got[0], 'store': var},
                {'trace': {'entity': c['cpp'] + '::' + c['decl'].name, 'sig': sig_of(ct.args),
                           'this': '{%s}' % var, 'args': got[1]},
                 'result': [{'t': 'instance', 'cls': mn}]})
        elif kind in ('method', 'property', 'static') and handles:
            var, hc = draw(st.sampled_from(handles))
            level = draw(st.sampled_from(chain(hc)))
            c = classes[level]
            cur[0] = level
            bad = c04.overlapping(c['decl'].members)
            if kind == 'method':
                ms = [x for x in c['decl'].members if isinstance(x, M.Method)
                      and x.template is None and id(x) not in bad]
                if not ms:
                    continue
                me = draw(st.sampled_from(ms))
                # a method of an ancestor is hidden when a class nearer to the handle's class
                # defines a method (or static method) of the same name
                hidden = False
                for nearer in chain(hc):
                    if nearer == level:
                        break
                    if any(isinstance(x, (M.Method, M.Static)) and x.name == me.name
                           for x in classes[nearer]['decl'].members):
                        hidden = True
                if hidden:
                    continue
                cnt = draw(st.sampled_from(arities(me.args)))
                got = call_args(me.args, cnt)
                if got is None:
                    continue
                ent = c['cpp'] + '::' + me.name
                res = result_of(ent, me.ret)
                same = alias_of(me.ret, me.args, cnt, got[0], c['decl'].name)
                if same is False:
                    continue
                step = {'kind': 'method', 'obj': var, 'fname': me.name, 'args': got[0]}
                returned(res, step, same)
                add(step, {'trace': {'entity': ent, 'sig': sig_of(me.args),
                                     'this': '{%s}' % var if level == hc else 'any',
                                     'args': got[1]}, 'result': res})
            elif kind == 'static':
                ms = [x for x in c['decl'].members if isinstance(x, M.Static)
                      and x.template is None and id(x) not in bad]
                if not ms:
                    continue
                me = draw(st.sampled_from(ms))
                cnt = draw(st.sampled_from(arities(me.args)))
                got = call_args(me.args, cnt)
                if got is None:
                    continue
                ent = c['cpp'] + '::' + me.name
                res = result_of(ent, me.ret)
                same = alias_of(me.ret, me.args, cnt, got[0], c['decl'].name)
                if same is False:
                    continue
                step = {'kind': 'static', 'cls': level, 'fname': me.name, 'args': got[0]}
                returned(res, step, same)
                add(step, {'trace': {'entity': ent, 'sig': sig_of(me.args), 'this': '-',
                                     'args': got[1]}, 'result': res})
            else:
                ps = [x for x in c['decl'].members if isinstance(x, M.Prop)]
                if not ps:
                    continue
                p = draw(st.sampled_from(ps))
                if draw(st.booleans()):
                    res = result_of('prop', M.Ret(replace(p.type, const=False, ptr='')))
                    res = [{'t': 'any'} if r['t'] != 'instance' else r for r in res]
                    step = {'kind': 'getter', 'obj': var, 'fname': 'get.' + p.name, 'args': []}
                    returned(res, step)
                    add(step, {'trace': None, 'result': res})
                else:
                    v = value(replace(p.type, ptr='' if p.type.ptr == '&' else p.type.ptr))
                    if v is None:
                        continue
                    add({'kind': 'setter', 'obj': var, 'fname': 'set.' + p.name,
                         'args': [v[0]]}, {'trace': None, 'result': []})
                    if v[0]['t'] in ('int', 'float', 'bool', 'str'):
                        want = dict(v[0])
                        if want['t'] == 'bool':
                            want = {'t': 'int', 'v': int(want['v'])}
                        if p.type.name == 'char':
                            want = {'t': 'int', 'v': ord(v[0]['v'])}
                        add({'kind': 'getter', 'obj': var, 'fname': 'get.' + p.name,
                             'args': []}, {'trace': None, 'result': [want]})
        elif kind == 'function' and funcs:
            path, f = draw(st.sampled_from(funcs))
            cur[0] = None
            if id(f) in func_bad:
                continue
            cnt = draw(st.sampled_from(arities(f.args)))
            got = call_args(f.args, cnt)
            if got is None:
                continue
            ent = '::'.join(path + (f.name,))
            res = result_of(ent, f.ret)
            same = alias_of(f.ret, f.args, cnt, got[0], None)
            if same is False:
                continue
            step = {'kind': 'function', 'file': matlab_name(path, f.name), 'fname': f.name,
                    'args': got[0]}
            returned(res, step, same)
            add(step, {'trace': {'entity': ent, 'sig': sig_of(f.args), 'this': '-',
                                 'args': got[1]}, 'result': res})
        elif kind == 'delete' and handles:
            var, hc = draw(st.sampled_from(handles))
            handles.remove((var, hc))   # a deleted handle is not used again
            add({'kind': 'delete', 'obj': var}, {'trace': None, 'result': None})
    add({'kind': 'unload'}, {'trace': None, 'result': None})
    meta = {'classes': {mn: {'parent': c['parent'], 'weight': weight(mn, classes),
                             'collector': ''.join(c['path']) + c['decl'].name,
                             'cpp': c['cpp']} for mn, c in classes.items()}}
    return {'steps': steps, 'meta': meta}


# ---------------------------------------------------------------- build and run

def build_and_run(m, hist):
    text = R.text(m)
    tree = wraps.matlab_tree([text], module_name='mod')
    d = wraps.scratch_dir('c11')
    try:
        os.makedirs(os.path.join(d, 'gtwrap'))
        shutil.copy(os.path.join(REPO, 'matlab.h'), os.path.join(d, 'gtwrap', 'matlab.h'))
        with open(os.path.join(d, 'vmock.h'), 'w') as f:
            f.write(cxxmock.emit(m, foreign=False))
        with open(os.path.join(d, 'mod_wrapper.cpp'), 'w') as f:
            f.write(tree['mod_wrapper.cpp'])
        colls = sorted(c['collector'] for c in hist['meta']['classes'].values())
        acc = ['#include "mod_wrapper.cpp"', 'extern "C" {',
               'long v_live() { return vtrace::live(); }',
               'long v_collector_size(const char *n) {']
        for c in colls:
            acc.append('  if (!strcmp(n, "%s")) return (long)collector_%s.size();' % (c, c))
        acc += ['  return -1; }',
                'int v_trace_take(char *buf, int n) { std::string s; '
                'for (auto &l : vtrace::log()) { if (!s.empty()) s += "\\n"; s += l; } '
                'vtrace::log().clear(); snprintf(buf, n, "%s", s.c_str()); return (int)s.size(); }',
                '}']
        with open(os.path.join(d, 'gw.cpp'), 'w') as f:
            f.write('\n'.join(acc) + '\n')
        so = os.path.join(d, 'gw.so')
        cmd = ['g++', '-std=c++17', '-O0', '-g', '-fPIC', '-shared', '-w', '-I' + d, '-I' + MOCK,
               '-o', so, os.path.join(d, 'gw.cpp'), os.path.join(MOCK, 'mexmock.cpp')]
        r = subprocess.run(cmd, capture_output=True, text=True, timeout=1800)
        if r.returncode != 0:
            return {'compile_error': c09.first_error(r.stderr)}
        parents = {mn: c['parent'] for mn, c in hist['meta']['classes'].items()}
        job = {'so': so, 'tree': tree, 'module': 'mod', 'parents': parents,
               'collectors': colls,
               'steps': [{k: v for k, v in s.items() if k != 'expect'} for s in hist['steps']]}
        json.dump(job, open(os.path.join(d, 'job.json'), 'w'))
        r = subprocess.run([sys.executable, '-m', 'vlib.matlab_emu', os.path.join(d, 'job.json'),
                            os.path.join(d, 'out.json')], capture_output=True, text=True,
                           timeout=600, cwd=ROOT,
                           env=dict(os.environ, PYTHONPATH=ROOT, PYTHONHASHSEED='0'))
        if not os.path.exists(os.path.join(d, 'out.json')):
            return {'crash': 'emulator exit %d: %s' % (r.returncode, r.stderr[-400:])}
        return json.load(open(os.path.join(d, 'out.json')))
    finally:
        shutil.rmtree(d, ignore_errors=True)


def match(want, got):
    if want is None or want['t'] == 'any':
        return True
    if want['t'] == 'instance':
        return got['t'] == 'instance' and got['cls'] == want['cls']
    if want['t'] == 'int':
        if got['t'] == 'u64':
            v = got['v']
            w = want['v']
            return v == w or (w < 0 and (v & 0xffffffff) == (w & 0xffffffff)) or \
                (v & 0xff) == (w & 0xff) and 0 <= w < 256 and v < 256
        if got['t'] == 'float':
            return got['v'] == want['v']
        return False
    if want['t'] == 'float':
        return got['t'] == 'float' and abs(got['v'] - want['v']) < 1e-9
    if want['t'] == 'str':
        return got['t'] == 'str' and got['v'] == want['v']
    if want['t'] == 'enum':
        return got['t'] == 'enum'
    return False


def check(case):
    m, hist = case['m'], case['steps']
    try:
        res = build_and_run(m, hist)
    except subprocess.TimeoutExpired:
        raise RuntimeError('INCONCLUSIVE: build or run timed out')
    if 'compile_error' in res:
        return [Failure('C11.gateway-does-not-compile', res['compile_error'])]
    if 'crash' in res:
        return [Failure('C11.crash', res['crash'])]
    out = []
    meta = hist['meta']['classes']
    ids = {}
    live = {}   # var -> class (model of live MATLAB handles)
    obj = {}    # var -> token of the C++ object the handle owns a share of
    ocls = {}   # token -> class the object was created as
    by_id = {s['id']: s for s in hist['steps']}
    case['_executed'] = 0
    unloaded = False
    for r in res['steps']:
        s = by_id[r['id']]
        exp = s['expect']
        label = '%s %s' % (s['kind'], s.get('cls') or s.get('fname') or s.get('obj') or '')
        if r.get('skipped'):
            continue
        case['_executed'] += 1
        if 'error' in r:
            out.append(Failure('C11.call-fails', '%s: %s' % (label, r['error'])))
            break
        # ---- model update
        if s['kind'] == 'new':
            live[s['store']] = s['cls']
            obj[s['store']] = s['store']
            ocls[s['store']] = s['cls']
        elif s['kind'] == 'delete':
            live.pop(s['obj'], None)
            obj.pop(s['obj'], None)
        elif s['kind'] == 'unload':
            live.clear()
            obj.clear()
            unloaded = True
        elif s.get('stores') and isinstance(r.get('result'), list):
            for k_, (var, x) in enumerate(zip(s['stores'], r['result'])):
                if var and x['t'] == 'instance':
                    live[var] = x['cls']
                    if k_ == 0 and s.get('alias') in obj:
                        obj[var] = obj[s['alias']]
                    else:
                        obj[var] = var
                        ocls[var] = x['cls']
        # ---- trace
        w = exp.get('trace')
        if w is not None:
            # other records are construction noise (members / returned objects built with a
            # declared default constructor); the call itself must appear exactly once
            main = [t for t in r['trace'] if t.split('|')[0] == w['entity']]
            if len(main) != 1:
                out.append(Failure('C11.entity', '%s: library recorded %s, expected one call of '
                                   '%s' % (label, r['trace'][:3], w['entity'])))
                break
            ent, sig, this, args = main[0].split('|', 3)
            if sig != w['sig']:
                out.append(Failure('C11.overload', '%s: ran %s%s, the branch taken belongs to %s'
                                   % (label, ent, sig, w['sig'])))
                break
            if w['this'] == '-':
                if this != '-':
                    out.append(Failure('C11.this', '%s: static call ran on an instance' % label))
            elif w['this'] != 'any':
                var = w['this'].strip('{}')
                gid = this.replace('this=', '')
                if var in ids and ids[var] != gid:
                    out.append(Failure('C11.this', '%s: ran on object %s, the handle holds '
                                       'object %s' % (label, gid, ids[var])))
                    break
                ids.setdefault(var, gid)
            ga = args.split(';') if args else []
            ok = len(ga) == len(w['args'])
            if ok:
                for x, y in zip(w['args'], ga):
                    mm = re.match(r'^(.*)\{(\w+)\}$', x)
                    if x.endswith(pyexec.WILD):
                        ok = ok and y.startswith(x[:-1])
                    elif mm:
                        ok = ok and (y == mm.group(1) + ids[mm.group(2)]
                                     if mm.group(2) in ids else y.startswith(mm.group(1)))
                    else:
                        ok = ok and x == y
            if not ok:
                out.append(Failure('C11.arguments', '%s: C++ received (%s), expected (%s)' % (
                    label, args, ';'.join(w['args']))))
                break
        # ---- results
        if isinstance(exp.get('result'), list) and isinstance(r.get('result'), list):
            if len(exp['result']) != len(r['result']):
                out.append(Failure('C11.result', '%s: %d outputs, expected %d' % (
                    label, len(r['result']), len(exp['result']))))
                break
            for want, got in zip(exp['result'], r['result']):
                if not match(want, got):
                    out.append(Failure('C11.result', '%s: MATLAB received %s, expected %s' % (
                        label, got, want)))
        # ---- ownership
        st_ = r['state']
        want_live = sum(meta[ocls[t_]]['weight'] for t_ in set(obj.values()))
        if st_['live'] != want_live:
            out.append(Failure('C11.leak-or-early-free' if not unloaded else
                               'C11.unload-leaves-objects',
                               'after %s: %d live C++ objects, the live handles account for %d'
                               % (label, st_['live'], want_live)))
            break
        for mn, info in meta.items():
            n = 0
            for c in live.values():
                k = c
                while k:
                    if k == mn:
                        n += 1
                    k = meta[k]['parent'] if k in meta else None
            got_n = st_['collectors'].get(info['collector'])
            if got_n != n:
                out.append(Failure('C11.collector', 'after %s: collector_%s holds %s entries, %d '
                                   'live handles of that class' % (label, info['collector'],
                                                                  got_n, n)))
                break
        if out:
            break
    return out[:10]


def features(case):
    f = set()
    steps = case['steps']['steps']
    kinds = [s['kind'] for s in steps]
    if any(s.get('stores') for s in steps):
        f.add('object-returned-from-c++')
    aliased = {s['alias'] for s in steps if s.get('alias')} | \
        {s['stores'][0] for s in steps if s.get('alias')}
    if aliased:
        f.add('two-handles-one-object')
        if any(s['kind'] == 'delete' and s['obj'] in aliased for s in steps):
            f.add('delete-one-of-two-handles')
    seen_delete = False
    for s in steps:
        if s['kind'] == 'delete':
            seen_delete = True
        elif seen_delete and s['kind'] in ('method', 'static', 'function', 'getter', 'setter'):
            f.add('calls-after-a-delete')
    meta = case['steps']['meta']['classes']
    if any(c['parent'] for c in meta.values()):
        f.add('inheritance')
        if any(c['parent'] and meta.get(c['parent'], {}).get('parent') for c in meta.values()):
            f.add('inheritance-depth>=2')
    news = sum(1 for k in kinds if k == 'new')
    dels = sum(1 for k in kinds if k == 'delete')
    if news > dels:
        f.add('unload-with-live-handles')
    if any('omit' in str(s) for s in steps):
        pass
    f.add('steps>=10' if len(steps) >= 10 else 'steps<10')
    return f


def describe(case):
    return {'model': M.to_json(case['m']), 'text': R.text(case['m']), 'history': case['steps']}


def from_replay(o):
    return {'m': M.from_json(o['model']), 'steps': o['history']}


SPEC = Spec(
    pid='C11',
    strategy=lambda tier: cases(tier),
    check=check,
    describe=describe,
    from_replay=from_replay,
    key=lambda c: R.text(c['m']) + json.dumps([{k: v for k, v in s.items() if k != 'expect'}
                                               for s in c['steps']['steps']], sort_keys=True),
    features=features,
    nontrivial=lambda c, f: 'object-returned-from-c++' in f and 'calls-after-a-delete' in f or
    'unload-with-live-handles' in f and 'inheritance' in f or 'two-handles-one-object' in f,
    rule="Hypothesis draws a module from the executable MATLAB profile (classes with "
         "constructors incl. trailing defaults, methods, static methods, properties, free "
         "functions, inheritance chains, namespaces; bool/char/int/size_t/double/string and "
         "generated classes by value / const& / & / * / @; by-value, shared-pointer and pair "
         "returns) and a history of 4-26 gateway calls (construct via an overload, call a method "
         "of the class or of an ancestor, static method, free function, property get/set, delete "
         "any live handle) ending with unload (the callback registered through mexAtExit). The "
         "generated <module>_wrapper.cpp is compiled unmodified with the real matlab.h on the "
         "mock MEX runtime; a MATLAB-object emulator executes the generated guards and id "
         "protocol (vlib.matscan) incl. objects created from C++ through mexCallMATLAB. Oracle "
         "after every step: trace record == predicted (entity, overload signature of the branch "
         "taken, this, argument values, omitted defaults), results, every collector's size == "
         "number of live handles of that class (ancestors included), live C++ objects == objects "
         "owned by live handles, nothing left after unload; a crash (double free) fails the "
         "case. Callables of the mock library that take and return a shared pointer of one "
         "class hand back their argument, so a history can hold two handles on one C++ object "
         "(the model counts distinct objects, the collectors count handles). Non-trivial: an "
         "object returned from C++ and calls after a delete, or unload with live handles in an "
         "inheritance chain, or two handles on one object.",
    budget={'quick': 3, 'thorough': 48},
    size=lambda c: len(R.text(c['m'])) + 40 * len(c['steps']['steps']),
    sample_fn=lambda c: {'text': R.text(c['m'])[:900],
                         'history': [{k: v for k, v in s.items() if k != 'expect'}
                                     for s in c['steps']['steps'][:8]],
                         'n_steps': len(c['steps']['steps'])},
    shrink_budget=6,
    assumptions=["the 3-argument 'void' constructor branch (RTTI up-cast) is unreached: "
                 "generated code always passes isVirtual=false to wrap_shared_ptr",
                 "no call is issued after unload; a base part is never deleted before the "
                 "derived part of the same MATLAB object",
                 "two MATLAB handles on one C++ object are not produced (the mock library "
                 "returns fresh objects)", "no AddressSanitizer: a double free shows as a crash "
                 "or as a wrong live-object count"],
)
