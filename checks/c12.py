"""C12 - Layout and comments never change the result.

Case: a model + one gap filler per gap between adjacent tokens (whitespace, newlines, C and C++
comments with hostile text, or nothing where two tokens can abut).  Metamorphic oracle: same
parse projection as the canonical layout; byte-identical pybind output and MATLAB toolbox.
"""
from __future__ import annotations

from hypothesis import strategies as st

from vlib import gen as G
from vlib import model as M
from vlib import project as P
from vlib import render as R
from vlib import wraps
from vlib.runner import Failure, Spec

WS = [' ', ' ', '\n', '\t', '  ', '\r\n', ' \n ', '\n\n', '\t \t']
HOSTILE = ['{', '}', ';', '"', "'", 'class A {};', 'template<T>', 'namespace x {', '//', '/*',
           '(', ')', '<', '>', 'é', '日本', '*', '/ *', '#include <x>', '= 0', 'const', ',',
           'T', '::', '@', '&', 'virtual class', 'pair<', '};', 'operator==', '__len__', '=',
           'std::', '"unterminated', "it's", '\\n', '%', '?']


@st.composite
def comments(draw):
    frags = draw(st.lists(st.sampled_from(HOSTILE), min_size=0, max_size=4))
    body = ' '.join(frags)
    if draw(st.booleans()):
        body = body.replace('*/', '* /')
        return '/*' + body + '*/'
    body = body.rstrip('\\')
    return '//' + body + '\n'


@st.composite
def gap(draw):
    kind = draw(st.integers(0, 9))
    if kind <= 3:
        return draw(st.sampled_from(WS))
    if kind <= 5:
        return ''
    parts = []
    for _ in range(draw(st.integers(1, 3))):
        parts.append(draw(st.sampled_from(['', ' ', '\n', '\t'])))
        parts.append(draw(comments()))
    parts.append(draw(st.sampled_from(['', ' ', '\n'])))
    return ''.join(parts)


def is_default(tokens, i):
    """token i is a default-value expression (follows '=' and is not a '{' list opener)."""
    return i > 0 and tokens[i - 1] == '=' and tokens[i] != '{'


def fix_gap(tokens, i, g):
    """Make gap g (before token i) legal between tokens[i-1] and tokens[i]."""
    if i == 0 or i >= len(tokens):
        return g
    left, right = tokens[i - 1], tokens[i]
    if g == '' and R.needs_space(left, right):
        return ' '
    if g[:1] in ('/', '*') and left.endswith('/'):
        return ' ' + g
    if is_default(tokens, i - 1) and g[:1] == '/':
        return ' ' + g  # a default value is a run of printable words: '3/*c*/' is one word
    if g == '' and is_default(tokens, i - 1) and right not in (',', ')', ';'):
        return ' '
    if g == '' and left.startswith('<') and left.endswith('>') and len(left) > 1:
        return g
    return g


@st.composite
def cases(draw, tier):
    prof = draw(st.sampled_from([G.SEMANTIC, G.SEMANTIC, G.DIALECT]))
    m = draw(G.modules(prof))
    toks = R.module_toks(m)
    gaps = [fix_gap(toks, i, draw(gap())) for i in range(len(toks) + 1)]
    # generator output is compared for a third of the semantic cases (each costs 4 more parses)
    name = prof.name
    if name == 'semantic' and draw(st.integers(0, 2)) != 1:
        name = 'semantic-parse-only'
    return (m, toks, gaps, name)


def _wrap_both(text):
    res = {}
    try:
        res['pybind'] = wraps.pybind_text(text)
    except Exception as e:
        res['pybind'] = 'RAISES ' + type(e).__name__
    try:
        res['matlab'] = wraps.matlab_tree([text])
    except Exception as e:
        res['matlab'] = 'RAISES ' + type(e).__name__
    return res


def compact(toks):
    """Minimal layout: nothing between tokens unless they cannot abut."""
    return R.layout(toks, [fix_gap(toks, i, '') for i in range(len(toks) + 1)])


def check(case):
    m, toks, gaps, prof = case
    if gaps is None:
        layouts = [('canonical', toks[0]), ('relayout', toks[1])]
    else:
        layouts = [('compact', compact(toks)), ('drawn', R.layout(toks, gaps))]
        if len(toks) < 60:
            layouts.insert(1, ('canonical', R.canonical(toks)))
    results = []
    for name, text in layouts:
        try:
            results.append((name, text, P.project(P.parse(text))[0], None))
        except Exception as e:
            results.append((name, text, None, '%s: %s' % (type(e).__name__, str(e)[:160])))
    ok = [r for r in results if r[2] is not None]
    if not ok:
        return []  # C01 reports rejected well-formed files
    out = []
    base = ok[0]
    for name, text, proj, err in results:
        if proj is None:
            out.append(Failure('C12.relayout-rejected', 'layout %r is rejected (%s) while layout '
                               '%r is accepted' % (name, err, base[0])))
        elif proj != base[2]:
            from vlib import treediff
            out.append(Failure('C12.parse-differs', 'layouts %r and %r: %s' % (
                base[0], name, treediff.first_diff(base[2], proj))))
    if prof == 'semantic' and len(ok) >= 2:
        a = _wrap_both(ok[0][1])
        b = _wrap_both(ok[-1][1])
        if a['pybind'] != b['pybind']:
            out.append(Failure('C12.pybind-differs', 'pybind output changes with layout'))
        if a['matlab'] != b['matlab']:
            out.append(Failure('C12.matlab-differs', 'MATLAB toolbox changes with layout'))
    return out


def features(case):
    m, toks, gaps, prof = case
    f = set()
    stack = []
    nsdepth = 0
    for i, t in enumerate(toks):
        g = gaps[i]
        has_c = '/*' in g or '//' in g
        if has_c:
            f.add('comment')
            if stack and stack[-1] == '<':
                f.add('comment-in-template-args')
            if stack and stack[-1] == '(':
                f.add('comment-in-params')
            if i > 0 and toks[i - 1] == 'const':
                f.add('comment-after-qualifier')
            if stack.count('{ns') >= 2:
                f.add('comment-in-nested-namespace')
            if i > 0 and toks[i - 1] == '=':
                f.add('comment-before-default')
        if g == '' and i > 0:
            f.add('abutting-tokens')
        if t in ('<', '('):
            stack.append(t)
        elif t == '{':
            stack.append('{ns' if i >= 2 and toks[i - 2] == 'namespace' else '{')
        elif t in ('>', ')', '}') and stack:
            stack.pop()
    f.add('profile-' + prof)
    return f


def from_replay(o):
    if 'text_pair' in o:  # hand-written witness: canonical text and a re-layout of it
        return (None, o['text_pair'], None, 'semantic')
    return (M.from_json(o['model']), list(o['tokens']), list(o['gaps']), o['profile'])


NONTRIVIAL = {'comment-in-template-args', 'comment-in-params', 'comment-after-qualifier',
              'comment-in-nested-namespace'}

SPEC = Spec(
    pid='C12',
    strategy=lambda tier: cases(tier),
    check=check,
    shrink_budget=40,
    describe=lambda c: {'text_pair': c[1]} if c[2] is None else {'model': M.to_json(c[0]), 'tokens': c[1], 'gaps': c[2], 'profile': c[3],
                        'text': R.layout(c[1], c[2])},
    from_replay=from_replay,
    key=lambda c: R.layout(c[1], c[2]),
    features=features,
    nontrivial=lambda c, f: bool(f & NONTRIVIAL),
    rule="Hypothesis draws a model (semantic profile 2/3, full dialect 1/3) and, for every gap "
         "between adjacent tokens, a filler: spaces/tabs/CR/LF, nothing (where the tokens can "
         "abut), or 1-3 C / C++ comments whose text is assembled from hostile fragments (braces, "
         "semicolons, quotes, keywords, '//' inside '/* */', '/*' inside '//', non-ASCII). "
         "Oracle: the compact layout (no whitespace where tokens can abut), the one-space layout "
         "and the drawn layout all parse to the same projection; for the semantic profile the "
         "pybind TU and every MATLAB file byte-identical (or both raise the same error). "
         "Non-trivial: >=1 comment inside a template argument list, a parameter list, right "
         "after a const qualifier, or inside a nested namespace. Distinct = distinct text.",
    budget={'quick': 40, 'thorough': 1000},
    size=lambda c: len(R.layout(c[1], c[2])),
    sample_fn=lambda c: R.layout(c[1], c[2])[:1200],
    assumptions=["whitespace = space, tab, CR, LF (pyparsing's default); form feed / vertical tab "
                 "are not generated", "single tokens: 'unsigned char', 'enum class|struct', "
                 "'#include', 'std::' before pair, '<header>', a whole default expression "
                 "(greedy printable words: a comment must be separated from it by whitespace), "
                 "'__name__'"],
)
