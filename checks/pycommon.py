"""Shared by the pybind checks: semantic domain for the generator, options, scanning."""
from __future__ import annotations

from dataclasses import replace

from hypothesis import strategies as st

from vlib import gen as G
from vlib import model as M
from vlib import pyrecords, pyscan, refinst, refpy, wraps
from vlib import render as R


def profile():
    return replace(G.SEMANTIC, name='pybind', typedef_same_ns=True, this_scoped=False,
                   template_modes=('all', 'all', 'all', 'none'), max_items=5, ns_depth=3,
                   scoped_needs_plain_arg=False)


def spaced(cpp: str) -> str:
    """C++ spelling the way users write ignore entries: ', ' between template arguments."""
    return cpp.replace(',', ', ')


def spaced_inner(cpp: str) -> str:
    """to_cpp() spelling of a typedef'd forward declaration: ',' between its own template
    arguments, ', ' inside nested ones."""
    out, depth = [], 0
    for ch in cpp:
        if ch == '<':
            depth += 1
        elif ch == '>':
            depth -= 1
        out.append(', ' if ch == ',' and depth >= 2 else ch)
    return ''.join(out)


def classes_of(items, out=None):
    if out is None:
        out = []
    for it in items:
        if it['k'] == 'ns':
            classes_of(it['items'], out)
        elif it['k'] in ('class', 'decl'):
            out.append(it)
    return out


def ns_paths(m, path=(), out=None):
    if out is None:
        out = []
    for it in m.content:
        if isinstance(it, M.Namespace):
            out.append(path + (it.name,))
            ns_paths(it, path + (it.name,), out)
    return out


@st.composite
def options(draw, m, items):
    paths = ns_paths(m)
    choice = draw(st.integers(0, 5))
    if paths and choice <= 2:
        top = draw(st.sampled_from(paths))
    elif choice == 3:
        top = ('nosuch',)
    else:
        top = ()
    cls = classes_of(items)
    ignore = []
    if cls and draw(st.integers(0, 2)) == 0:
        k = draw(st.integers(1, min(3, len(cls))))
        for c in draw(st.permutations(cls))[:k]:
            # to_cpp() of a class joins template arguments with ', ', that of a typedef'd
            # forward declaration with ','; the ignore list is compared with that spelling
            ignore.append(spaced(c['cpp']) if c['k'] == 'class' else spaced_inner(c['cpp']))
    if draw(st.integers(0, 4)) == 0:
        ignore.append(draw(st.sampled_from(['gtsam::NoSuch', 'A', 'ns1::B<double>'])))
    boost = draw(st.booleans())
    return {'top': list(top), 'ignore': ignore, 'boost': boost}


@st.composite
def reopen_top(draw, m, opts):
    """In a third of the cases with an existing top namespace: a namespace on the path to (or
    equal to) the top namespace is opened twice.  No submodule variable belongs to such a block,
    so both blocks must simply be bound."""
    if not opts['top'] or opts['top'] == ['nosuch'] or draw(st.integers(0, 2)) != 0:
        return m
    k = draw(st.integers(1, len(opts['top'])))
    return _split_block(draw, m, tuple(opts['top'][:k]))


def _split_block(draw, node, path):
    """Cut the first block of namespace `path` into two adjacent blocks of the same name."""
    content = list(node.content)
    for i, it in enumerate(content):
        if isinstance(it, M.Namespace) and it.name == path[0]:
            if len(path) > 1:
                content[i] = _split_block(draw, it, path[1:])
            else:
                n = len(it.content)
                cut = draw(st.integers(1, n - 1)) if n >= 2 else draw(st.integers(0, n))
                content[i:i + 1] = [M.Namespace(it.name, tuple(it.content[:cut])),
                                    M.Namespace(it.name, tuple(it.content[cut:]))]
            break
    return replace(node, content=tuple(content))


def reopened(node):
    names = [it.name for it in node.content if isinstance(it, M.Namespace)]
    return len(names) != len(set(names)) or any(
        reopened(it) for it in node.content if isinstance(it, M.Namespace))


def scan(tu: str):
    return pyscan.scan_body(pyscan.extract_body(tu))
