"""C08 - Exactly the requested instantiations exist, in order, with stable names."""
from vlib import model as M
from vlib import reader
from vlib.runner import Spec
from checks import instcommon as IC

NONTRIVIAL = {'product>=4', 'class-x-member-product', 'typedef'}


def from_replay(obj):
    if 'model' in obj:
        return (M.from_json(obj['model']), obj['text'])
    return (reader.read(obj['text']), obj['text'])


SPEC = Spec(
    pid='C08',
    strategy=IC.strategy,
    check=lambda c: IC.run(c, ('C08',)),
    describe=lambda c: {'model': M.to_json(c[0]), 'text': c[1]},
    from_replay=from_replay,
    key=lambda c: c[1],
    features=IC.features,
    nontrivial=lambda c, f: bool(f & NONTRIVIAL),
    rule="Hypothesis builds modules with class templates (1..3 parameters, lists of 1..3, or no "
         "list), member-level templates on top, function templates, typedefs of classes / "
         "functions / forward-declared foreign templates placed before or after the template, "
         "and non-template declarations interleaved, at namespace depth 0..2. Oracle: per "
         "scope, the sequence (kind, name, C++ spelling, namespace path) of the instantiated "
         "content == vlib.refinst reference enumeration (ordered Cartesian product, first "
         "parameter slowest; capitalised-concatenated names; Name<args>; typedef -> one item "
         "with the typedef's name; no list and no typedef -> nothing; everything else once, in "
         "order), and the same for member lists inside each class instantiation. Non-trivial: "
         "product size >= 4, class-level x member-level product, or a typedef. Distinct = "
         "distinct rendered text.",
    budget={'quick': 64, 'thorough': 1500},
    size=lambda c: len(c[1]),
    sample_fn=lambda c: c[1],
    assumptions=["where typedef-derived instantiations sit relative to other items of the scope "
                 "is not checked (the property does not fix it); their mutual order is"],
)
