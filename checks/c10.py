"""C10 - The MATLAB toolbox contains exactly the declared classes, functions, enums."""
from __future__ import annotations

from vlib import matscan
from vlib.refmat import canon
from vlib.runner import Failure, Spec
from checks import matcommon as MC


def check(case):
    try:
        exp, tree, files, w = MC.generate(case)
    except matscan.MatScanError as e:
        return [Failure('C10.unscannable', str(e)[:300])]
    except Exception as e:
        return [Failure('C10.generator-raises', '%s: %s' % (type(e).__name__, str(e)[:300]))]
    out = []
    got = set(tree)
    want = set(exp['files'])
    if got != want:
        out.append(Failure('C10.file-set', 'missing %s; unexpected %s' % (
            sorted(want - got)[:4], sorted(got - want)[:4])))
    for c in exp['classes']:
        mf = files.get(c['file'])
        if mf is None:
            continue
        w_ = 'classdef %s' % c['file']
        if mf.kind != 'classdef' or mf.name != c['name']:
            out.append(Failure('C10.classdef', '%s declares %s %s' % (w_, mf.kind, mf.name)))
            continue
        parent = 'handle' if c['parent'] is None else c['parent'].replace('::', '.')
        import re as _re
        if canon(mf.parent) != canon(parent) or (c['parent'] is None) != (mf.parent == 'handle'):
            out.append(Failure('C10.classdef', '%s derives from %s, expected %s' % (
                w_, mf.parent, parent)))
        elif not _re.match(r'^[A-Za-z_][\w.]*$', mf.parent):
            out.append(Failure('C10.classdef', '%s derives from %r, which is not a MATLAB class '
                               'name (the constructor delegates to %r)' % (w_, mf.parent,
                                                                           mf.base_call)))
        ptr = 'ptr_' + c['collector']
        if mf.ptr_property != ptr or mf.ctor_sets_ptr != ptr:
            out.append(Failure('C10.classdef', '%s: pointer property %s / constructor sets %s, '
                               'expected %s' % (w_, mf.ptr_property, mf.ctor_sets_ptr, ptr)))
        fnames = [f for f, st in mf.functions if not st]
        snames = [f for f, st in mf.functions if st]
        if fnames.count(c['name']) != 1:
            out.append(Failure('C10.classdef', '%s: %d constructors' % (
                w_, fnames.count(c['name']))))
        if fnames.count('delete') != 1:
            out.append(Failure('C10.classdef', '%s: %d delete functions' % (
                w_, fnames.count('delete'))))
        want_methods = sorted(c['method_overloads']) + (['string_serialize', 'saveobj']
                                                        if c['serialized'] else [])
        got_methods = [f for f in fnames if f not in (c['name'], 'delete', 'display', 'disp')
                       and not f.startswith(('get.', 'set.'))]
        if sorted(got_methods) != sorted(want_methods):
            out.append(Failure('C10.members', '%s: methods %s, expected %s' % (
                w_, sorted(got_methods), sorted(want_methods))))
        want_static = sorted(c['static_overloads']) + (['string_deserialize', 'loadobj']
                                                       if c['serialized'] else [])
        if sorted(snames) != sorted(want_static):
            out.append(Failure('C10.members', '%s: static methods %s, expected %s' % (
                w_, sorted(snames), sorted(want_static))))
        props = [p[1] for p in c['props']]
        if mf.properties != props:
            out.append(Failure('C10.members', '%s: properties %s, expected %s' % (
                w_, mf.properties, props)))
        acc = sorted(f for f in fnames if f.startswith(('get.', 'set.')))
        want_acc = sorted(['get.' + p for p in props] + ['set.' + p for p in props])
        if acc != want_acc:
            out.append(Failure('C10.members', '%s: accessors %s, expected %s' % (
                w_, acc, want_acc)))
    for e in exp['enums']:
        mf = files.get(e['file'])
        if mf is None:
            continue
        if mf.kind != 'enum' or mf.name != e['name']:
            out.append(Failure('C10.enum', '%s is %s %s' % (e['file'], mf.kind, mf.name)))
        elif mf.enumerators != [(n, i) for i, n in enumerate(e['values'])]:
            out.append(Failure('C10.enum', '%s: enumerators %s, expected %s numbered from 0' % (
                e['file'], mf.enumerators, e['values'])))
    for f, ovs in exp['functions'].items():
        mf = files.get(f)
        if mf is not None and (mf.kind != 'function' or mf.name != ovs[0]['name']):
            out.append(Failure('C10.function', '%s defines %s %s' % (f, mf.kind, mf.name)))
    # ---- MEX preamble
    want_coll = sorted((canon(c['cpp']), c['collector']) for c in exp['classes'])
    tdmap = {}
    for cpp, name in w.typedefs:  # typedef ns::A<bool> ABool;
        tdmap.setdefault(name, set()).add(cpp)
    # the typedef name is not namespace-qualified: with the same template name in two
    # namespaces it is ambiguous, and only the collector names are compared
    ambiguous = {n for n, v in tdmap.items() if len(v) > 1}
    amb_cpp = {canon(x) for n in ambiguous for x in tdmap[n]}

    def res(a):
        if a in ambiguous:
            return 'AMBIGUOUS'
        return canon(next(iter(tdmap[a]))) if a in tdmap else canon(a)
    got_coll = sorted((res(a), b) for a, b in w.collectors)
    want_coll = sorted(('AMBIGUOUS' if canon(c['cpp']) in amb_cpp else canon(c['cpp']),
                        c['collector']) for c in exp['classes'])
    if ambiguous:
        # (a class reached both through an ambiguous and through an unambiguous typedef name
        # cannot be told apart either: names only)
        got_coll = sorted(b for _, b in got_coll)
        want_coll = sorted(b for _, b in want_coll)
    if got_coll != want_coll:
        out.append(Failure('C10.collectors', 'collector typedefs %s, expected %s' % (
            [x if isinstance(x, str) else x[1] for x in got_coll],
            [x if isinstance(x, str) else x[1] for x in want_coll])))
    names = sorted(c['collector'] for c in exp['classes'])
    if sorted(w.collector_instances) != names:
        out.append(Failure('C10.collectors', 'collector instances %s, expected %s' % (
            sorted(w.collector_instances), names)))
    if sorted(w.deleted) != names:
        out.append(Failure('C10.unload', '_deleteAllObjects frees %s, expected %s' % (
            sorted(w.deleted), names)))
    want_rtti = sorted(c['collector'] for c in exp['classes'] if c['virtual'])
    if sorted(b for _, b in w.rtti) != want_rtti:
        out.append(Failure('C10.rtti', 'RTTI registers %s, expected %s' % (
            sorted(b for _, b in w.rtti), want_rtti)))
    return out


SPEC = Spec(
    pid='C10',
    strategy=lambda tier: MC.cases(tier),
    check=check,
    describe=MC.describe,
    from_replay=MC.from_replay,
    key=lambda c: repr(MC.describe(c)['text']) + repr(c['ignore']) + repr(c['boost']),
    features=MC.features,
    nontrivial=lambda c, f: bool(f & {'class-enum-at-depth>=2', 'ignore', 'class-at-depth>=2',
                                      'class-template', 'virtual'}),
    rule="Hypothesis draws a semantic-profile module (namespaces to depth 3, class-scoped enums "
         "at every depth, classes without constructors, same class name in two namespaces, "
         "templates and typedefs), an ignore list (namespace-qualified instantiated names) and "
         "the serialization flag. Oracle: the set of relative paths in the output directory == "
         "paths computed from the model (one classdef per non-ignored class instantiation at "
         "+a/+b/Name.m, one file per free-function name, one enumeration classdef per enum, "
         "class enums under .../+Class/, one <module>_wrapper.cpp); every classdef parses to the "
         "declared base or handle, the pointer property, one constructor, one delete, one "
         "function per distinct method / static name, get./set. per property; enumerators "
         "numbered 0..n-1 in order; the MEX preamble has one collector typedef + instance + "
         "clean-up block per class and one RTTI entry per virtual class. Non-trivial: namespace "
         "depth >= 2, an ignore entry, a template or a virtual class.",
    budget={'quick': 48, 'thorough': 1200},
    size=lambda c: len(MC.describe(c)['text']),
    sample_fn=lambda c: {'text': MC.describe(c)['text'][:1200], 'ignore': c['ignore'],
                         'boost': c['boost']},
    shrink_budget=80,
)
