"""C19 - Parsing cost stays polynomial in nesting depth and file size.

Wall-clock is not the oracle.  The harness counts grammar-element match attempts that are not
served from the packrat cache (a deterministic function of grammar and input) and checks the
growth under doubling of namespace depth / template-argument depth / number of declarations,
for families built around randomly drawn seeds.  A cap on the counter cuts an exponential run
short instead of waiting for it.
"""
from __future__ import annotations

import time

from hypothesis import strategies as st

from vlib import gen as G
from vlib import model as M
from vlib import render as R
from vlib.runner import Failure, Spec
from dataclasses import replace


class Budget(BaseException):
    pass


class Counter:
    """Counts calls of ParserElement._parseNoCache (uncached match attempts)."""

    def __init__(self):
        import pyparsing
        self.pp = pyparsing
        self.count = 0
        self.cap = None
        self.installed = False

    def install(self):
        if self.installed:
            return
        PE = self.pp.ParserElement
        orig = PE._parseNoCache
        me = self

        def counting(self_, instring, loc, doActions=True, callPreParse=True):
            me.count += 1
            if me.cap is not None and me.count > me.cap:
                raise Budget()
            return orig(self_, instring, loc, doActions, callPreParse)

        counting._verif_counter = True
        self.alias = PE._parse is orig or getattr(PE._parse, '__func__', None) is orig
        PE._parseNoCache = counting
        if self.alias:  # packrat is off: _parse is the uncached function itself
            PE._parse = counting
        self.installed = True
        self.PE = PE
        self.orig = orig

    def parse(self, text, cap):
        import gtwrap.interface_parser as parser
        PE = self.PE
        # if something switched memoisation off since install, _parse points at the original
        if PE._parse is self.orig:
            PE._parse = PE._parseNoCache
        self.count = 0
        self.cap = cap
        t0 = time.process_time()
        try:
            PE.reset_cache()
            parser.Module.parseString(text)
            capped = False
        except Budget:
            capped = True
        finally:
            self.cap = None
        return self.count, capped, time.process_time() - t0


_counter = None


def counter():
    global _counter
    if _counter is None:
        _counter = Counter()
        _counter.install()
    return _counter


SMALL = replace(G.DIALECT, max_items=2, max_members=3, ns_depth=1, type_depth=2, name='small')
QUAL = [(), ('gtsam',), ('a', 'b'), ('n1', 'n2', 'n3', 'n4', 'n5'),
        ('alpha', 'beta', 'gamma', 'delta', 'eps', 'zeta')]


@st.composite
def families(draw, tier):
    kind = draw(st.sampled_from(['template-depth', 'namespace-depth', 'mixed', 'size']))
    seed = draw(G.modules(SMALL))
    maxd = 16 if tier == 'quick' else 32
    spec = {'kind': kind, 'seed': seed, 'maxd': maxd}
    if kind in ('template-depth', 'mixed'):
        levels = []
        for _ in range(maxd):
            ns = draw(st.sampled_from(QUAL))
            name = draw(st.sampled_from(['vector', 'Tpl', 'optional', 'FastVector', 'Map2']))
            arity2 = name == 'Map2'
            extra = draw(st.sampled_from(['double', 'gtsam::Pose3', 'a::b::c::D', 'size_t']))
            q = draw(st.sampled_from(['', '', '*', '&', '@']))
            c = draw(st.booleans()) and draw(st.booleans())
            levels.append((ns, name, arity2, extra, q, c))
        spec['levels'] = levels
        spec['where'] = draw(st.sampled_from(['arg', 'ret', 'prop', 'base', 'var', 'inst']))
    if kind == 'size':
        spec['more'] = [draw(G.modules(SMALL)) for _ in range(3)]
    # what the process parsed before: nothing, or a file that was rejected
    spec['prelude'] = draw(st.sampled_from(['none', 'none', 'rejected-file']))
    return spec


def nested_type(levels, d):
    def build(i):
        if i == d:
            return 'double'
        ns, name, arity2, extra, q, c = levels[i]
        inner = build(i + 1)
        s = '::'.join(ns + (name,)) + '<' + (extra + ', ' if arity2 else '') + inner + '>'
        if i > 0:
            s = ('const ' if c else '') + s + q
        return s
    return build(0)


def make_text(spec, d):
    seed_text = R.text(spec['seed'])
    kind = spec['kind']
    if kind == 'namespace-depth':
        return ''.join('namespace n%d {\n' % i for i in range(d)) + seed_text + '}\n' * d, d
    if kind == 'size':
        parts = [seed_text] + [R.text(m) for m in spec['more']]
        body = []
        for i in range(d):
            # wrap each copy in its own namespace so that names stay unique
            body.append('namespace c%d {\n%s}\n' % (i, parts[i % len(parts)]))
        return ''.join(body), 1
    t = nested_type(spec['levels'], d)
    where = spec['where']
    decl = {'arg': 'void f(%s x);\n' % t, 'ret': '%s f();\n' % t,
            'prop': 'class C { %s p; };\n' % t, 'base': 'class C : %s {};\n' % t,
            'var': '%s v;\n' % t,
            'inst': 'template<T = {%s}> class C {};\n' % nested_type(
                [(l[0], l[1], l[2], l[3], '', False) for l in spec['levels']], d)}[where]
    if kind == 'mixed':
        nd = max(1, d // 2)
        return ''.join('namespace n%d {\n' % i for i in range(nd)) + seed_text + decl + \
            '}\n' * nd, d + nd
    return seed_text + decl, d


RATIO = 8.0
ABS = 150


def check(spec):
    c = counter()
    out = []
    sizes = [2, 4, 8, 16] + ([32] if spec['maxd'] >= 32 else [])
    if spec['kind'] == 'size':
        sizes = [5, 10, 20, 40] + ([80] if spec['maxd'] >= 32 else [])
    prev = None
    rows = []
    if spec.get('prelude') == 'rejected-file':
        bad = make_text(spec, 2)[0] + '\nclass Unfinished {\n'
        try:
            c.parse(bad, cap=ABS * len(bad) * 4)
        except Exception:
            pass  # a syntax error, as intended
    for d in sizes:
        text, depth = make_text(spec, d)
        bound = ABS * len(text) * (1 + depth)
        steps, capped, cpu = c.parse(text, cap=bound)
        rows.append((d, len(text), steps, capped, round(cpu, 3)))
        if capped:
            out.append(Failure('C19.absolute-bound', '%s family at size %d (%d chars): more than '
                               '%d uncached match attempts (= %d*len*(1+depth)); run cut off' % (
                                   spec['kind'], d, len(text), bound, ABS)))
            break
        if prev is not None and prev[0] >= 4 and steps > RATIO * prev[1]:
            out.append(Failure('C19.growth', '%s family: %d -> %d match attempts when size goes '
                               '%d -> %d (ratio %.1f > %.1f)' % (spec['kind'], prev[1], steps,
                                                                prev[0], d, steps / prev[1],
                                                                RATIO)))
        prev = (d, steps)
    spec['_rows'] = rows
    return out


def features(spec):
    f = {'family-' + spec['kind']}
    if spec.get('prelude') == 'rejected-file':
        f.add('after-a-rejected-file')
    if 'where' in spec:
        f.add('where-' + spec['where'])
    if spec.get('levels') and any(len(l[0]) >= 5 for l in spec['levels'][:8]):
        f.add('long-qualified-names')
    return f


def describe(spec):
    d = {k: v for k, v in spec.items() if not k.startswith('_') and k not in ('seed', 'more')}
    d['seed'] = M.to_json(spec['seed'])
    if 'more' in spec:
        d['more'] = [M.to_json(m) for m in spec['more']]
    d['text_at_8'] = make_text(spec, 8)[0][:3000]
    if '_rows' in spec:
        d['rows(size,chars,steps,capped,cpu_s)'] = spec['_rows']
    return d


def from_replay(o):
    spec = {k: v for k, v in o.items() if k not in ('seed', 'more', 'text_at_8') and
            not k.startswith('rows')}
    spec['seed'] = M.from_json(o['seed'])
    if 'more' in o:
        spec['more'] = [M.from_json(m) for m in o['more']]
    if 'levels' in spec:
        spec['levels'] = [(tuple(l[0]), l[1], l[2], l[3], l[4], l[5]) for l in spec['levels']]
    return spec


def sample(spec):
    return {'kind': spec['kind'], 'where': spec.get('where'),
            'rows(size,chars,steps,capped,cpu_s)': spec.get('_rows'),
            'text_at_4': make_text(spec, 4)[0][:600]}


SPEC = Spec(
    pid='C19',
    strategy=lambda tier: families(tier),
    check=check,
    describe=describe,
    from_replay=from_replay,
    key=lambda s: make_text(s, 8)[0],
    features=features,
    nontrivial=lambda s, f: True,
    rule="Hypothesis draws a family: a random seed file (dialect profile) scaled by (a) d nested "
         "namespaces, (b) a type nested d template levels deep (random names incl. 5-6 component "
         "qualified names, qualifiers, 1- and 2-argument templates) placed in an argument / "
         "return / property / base class / variable / instantiation list, (c) both, (d) n copies "
         "of random declarations; d in 2..16 (32 thorough), n in 5..40 (80). Oracle: number of "
         "uncached grammar-element match attempts (deterministic): steps(2d)/steps(d) <= 8 (cubic) for "
         "d >= 4 and steps <= 150*len(text)*(1+depth); the counter is capped at that bound so an "
         "exponential run is cut off, not awaited. evaluations counts families; each family is "
         "4-5 parses. Every family is non-trivial (reaches depth >= 16 or 40 declarations); "
         "distinct = distinct text at size 8.",
    budget={'quick': 12, 'thorough': 60},
    size=lambda s: len(make_text(s, 4)[0]),
    sample_fn=sample,
    shrink_budget=40,
    assumptions=["polynomial growth is sampled up to depth 16/32 and 40/80 declarations; CPU "
                 "seconds are recorded but only the deterministic counter decides",
                 "measured on the pinned tree: ratios <= 3.2, steps/(len*(1+depth)) in 7..36; "
                 "without packrat: 300 at depth 2 and ratio 16 from depth 4 to 8"],
)
