"""C15 - Ignoring or removing a class affects that class only.

Metamorphic: for a class X nothing else depends on, generating with X ignored == generating from
the input with X deleted (pybind: byte for byte; MATLAB: all files after rank-normalising gateway
ids); deleting an unrelated declaration D leaves every other binding statement / classdef
unchanged (ids rank-normalised per file).
"""
from __future__ import annotations

import collections
from dataclasses import replace

from hypothesis import strategies as st

from vlib import gen as G
from vlib import matnorm, model as M, pyscan, refinst, wraps
from vlib import render as R
from vlib.runner import Failure, Spec
from checks import pycommon as PC


def _classes(m):
    """(path, class) for classes that can be ignored/deleted: no typedef names them."""
    td = {(tuple(it.type.ns), it.type.name) for _, it in M.iter_items(m)
          if isinstance(it, M.Typedef)}
    out = []
    for path, it in M.iter_items(m):
        if isinstance(it, M.Class) and (path, it.name) not in td:
            if it.template is not None and not all(p.insts for p in it.template.params):
                continue  # yields nothing anyway
            out.append((path, it))
    return out


def _unrelated(m):
    """Declarations whose removal cannot affect anything else: no typedef names them."""
    td = {(tuple(it.type.ns), it.type.name) for _, it in M.iter_items(m)
          if isinstance(it, M.Typedef)}
    ok = _classes(m)
    out = []
    for p, it in M.iter_items(m):
        if isinstance(it, (M.Enum, M.Var)):
            out.append((p, it))
        elif isinstance(it, M.Func) and (p, it.name) not in td:
            out.append((p, it))
        elif isinstance(it, M.Fwd) and (p, it.name.name) not in td:
            out.append((p, it))
        elif isinstance(it, M.Class) and (p, it) in ok:
            out.append((p, it))
    return out


def _func_names(f):
    """MATLAB file stems a free function owns: its name, or one name per instantiation."""
    import itertools
    if f.template is None or not all(p.insts for p in f.template.params):
        return {f.name}
    return {refinst.instantiated_name(f.name, list(combo))
            for combo in itertools.product(*[p.insts for p in f.template.params])}


def _delete(m, target):
    def fn(it):
        return None if it is target else it
    return M.map_items(m, fn)


def _inst_names(path, cls):
    """(pybind ignore spellings, MATLAB ignore spellings) of every instantiation of cls."""
    import itertools
    py, mat = [], []
    if cls.template is None:
        combos = [()]
    else:
        combos = list(itertools.product(*[p.insts for p in cls.template.params]))
    for combo in combos:
        d = refinst.inst_class(cls, path, list(combo))
        py.append(PC.spaced(d['cpp']))
        mat.append('::'.join(path + (d['name'],)) if path else d['name'])
    return py, mat


@st.composite
def cases(draw, tier):
    m = draw(G.modules(replace(PC.profile(), name='c15')).filter(lambda x: bool(_classes(x))))
    kind = draw(st.sampled_from(['ignore', 'ignore', 'delete-unrelated']))
    boost = draw(st.booleans())
    if kind == 'ignore':
        cs = _classes(m)
        # a class whose unqualified name another class shares is the interesting one to ignore
        twins = [(p, c) for p, c in cs if any(c2.name.lower() == c.name.lower() and c2 is not c
                                              for _, c2 in M.iter_items(m)
                                              if isinstance(c2, M.Class))]
        path, cls = draw(st.sampled_from(twins if twins and draw(st.booleans()) else cs))
        return {'m': m, 'kind': kind, 'path': list(path), 'name': cls.name, 'boost': boost}
    cands = _unrelated(m)
    if not cands:
        path, cls = draw(st.sampled_from(_classes(m)))
        return {'m': m, 'kind': 'ignore', 'path': list(path), 'name': cls.name, 'boost': boost}
    i = draw(st.integers(0, len(cands) - 1))
    return {'m': m, 'kind': kind, 'index': i, 'boost': boost}


def _find(m, path, name):
    for p, it in M.iter_items(m):
        if isinstance(it, M.Class) and list(p) == list(path) and it.name == name:
            return p, it
    raise KeyError(name)


def _pybind(text, ignore, boost):
    try:
        return wraps.pybind_text(text, ignore=ignore, boost=boost)
    except Exception as e:
        return 'RAISES %s: %s' % (type(e).__name__, str(e)[:100])


def _matlab(text, ignore, boost):
    try:
        return wraps.matlab_tree([text], ignore=ignore, boost=boost)
    except Exception as e:
        return 'RAISES %s: %s' % (type(e).__name__, str(e)[:100])


def _diff_tree(a, b):
    if isinstance(a, str) or isinstance(b, str):
        return '%r vs %r' % (a if isinstance(a, str) else 'tree', b if isinstance(b, str)
                             else 'tree')
    bad = sorted(k for k in set(a) | set(b) if a.get(k) != b.get(k))
    msg = 'files differing: %s' % bad[:4]
    for k in bad[:1]:
        if k in a and k in b:
            for i, (x, y) in enumerate(zip(a[k].splitlines(), b[k].splitlines())):
                if x != y:
                    msg += '; %s line %d: %r vs %r' % (k, i + 1, x[:100], y[:100])
                    break
    return msg


def check(case):
    m = case['m']
    text = R.text(m)
    boost = case['boost']
    out = []
    if case['kind'] == 'ignore':
        path, cls = _find(m, case['path'], case['name'])
        py_ign, mat_ign = _inst_names(path, cls)
        text_del = R.text(_delete(m, cls))
        a = _pybind(text, py_ign, boost)
        b = _pybind(text_del, [], boost)
        if a != b:
            la, lb = a.splitlines(), b.splitlines()
            d = next(('line %d: %r vs %r' % (i + 1, x[:120], y[:120])
                      for i, (x, y) in enumerate(zip(la, lb)) if x != y),
                     'lengths %d vs %d lines' % (len(la), len(lb)))
            out.append(Failure('C15.pybind-ignore-vs-delete',
                               'ignoring %s differs from deleting it: %s' % (py_ign, d)))
        ta = _matlab(text, mat_ign, boost)
        tb = _matlab(text_del, [''], boost)
        na = matnorm.normalise_tree(ta, 'mod') if isinstance(ta, dict) else ta
        nb = matnorm.normalise_tree(tb, 'mod') if isinstance(tb, dict) else tb
        if na != nb:
            out.append(Failure('C15.matlab-ignore-vs-delete',
                               'ignoring %s differs from deleting it: %s' % (
                                   mat_ign, _diff_tree(na, nb))))
        return out
    # delete an unrelated declaration
    cands = _unrelated(m)
    p, D = cands[case['index']]
    text_del = R.text(_delete(m, D))
    a, b = _pybind(text, [], boost), _pybind(text_del, [], boost)
    if a.startswith('RAISES') or b.startswith('RAISES'):
        if a != b:
            out.append(Failure('C15.delete-unrelated-raises', '%s vs %s' % (a[:80], b[:80])))
    else:
        sa = collections.Counter(nows(s) for s in pyscan.split_statements(pyscan.extract_body(a)))
        sb = collections.Counter(nows(s) for s in pyscan.split_statements(pyscan.extract_body(b)))
        gone = sa - sb
        new = sb - sa
        if new:
            out.append(Failure('C15.pybind-unrelated-changed', 'deleting %s %s made new '
                               'statements appear: %s' % (type(D).__name__, _name(D),
                                                          [x[:100] for x in new][:2])))
        for stmt in gone:
            if not _mentions(stmt, D):
                out.append(Failure('C15.pybind-unrelated-changed', 'deleting %s %s removed a '
                                   'statement of another entity: %s' % (type(D).__name__,
                                                                        _name(D), stmt[:140])))
                break
    ta, tb = _matlab(text, [''], boost), _matlab(text_del, [''], boost)
    if isinstance(ta, dict) and isinstance(tb, dict):
        for path_, content in tb.items():
            if not path_.endswith('.m') or path_ not in ta:
                continue
            if matnorm.rank_ids_in_file(content, 'mod') != \
                    matnorm.rank_ids_in_file(ta[path_], 'mod'):
                if isinstance(D, M.Func) and path_.split('/')[-1][:-2] in _func_names(D):
                    continue  # another overload of the deleted function lives in this file
                out.append(Failure('C15.matlab-unrelated-changed', 'deleting %s %s changed %s'
                                   % (type(D).__name__, _name(D), path_)))
                break
        extra = sorted(set(tb) - set(ta))
        if extra:
            out.append(Failure('C15.matlab-unrelated-changed', 'deleting %s %s created files %s'
                               % (type(D).__name__, _name(D), extra[:3])))
    elif isinstance(ta, str) != isinstance(tb, str):
        out.append(Failure('C15.delete-unrelated-raises', 'MATLAB: %s vs %s' % (
            ta if isinstance(ta, str) else 'ok', tb if isinstance(tb, str) else 'ok')))
    return out


def nows(s):
    import re
    return re.sub(r'\s+', ' ', s).strip()


def _name(D):
    n = D.name
    return n if isinstance(n, str) else n.name


def _mentions(stmt, D):
    import re
    n = _name(D)
    return re.search(r'(?<![A-Za-z0-9_])%s' % re.escape(n), stmt) is not None or \
        re.search(r'(?<![A-Za-z0-9_])%s' % re.escape(n.lower()), stmt) is not None


def features(case):
    m = case['m']
    f = {case['kind']}
    if case['kind'] == 'ignore':
        path, cls = _find(m, case['path'], case['name'])
        f.add('global-class' if not path else 'namespaced-class')
        if cls.template:
            f.add('templated')
        if cls.virtual:
            f.add('virtual')
        if any(isinstance(x, M.Enum) for x in cls.members):
            f.add('with-enums')
        if any(getattr(x, 'name', '') in ('serialize', 'serializable') for x in cls.members):
            f.add('with-serialize')
    if case['boost']:
        f.add('boost')
    return f


def describe(case):
    d = {k: v for k, v in case.items() if k != 'm'}
    d['model'] = M.to_json(case['m'])
    d['text'] = R.text(case['m'])
    return d


def from_replay(o):
    c = {k: v for k, v in o.items() if k not in ('model', 'text')}
    if 'model' in o:
        c['m'] = M.from_json(o['model'])
    else:
        from vlib import reader
        c['m'] = reader.read(o['text'])
    return c


SPEC = Spec(
    pid='C15',
    strategy=lambda tier: cases(tier),
    check=check,
    describe=describe,
    from_replay=from_replay,
    key=lambda c: R.text(c['m']) + repr(sorted((k, str(v)) for k, v in c.items() if k != 'm')),
    features=features,
    nontrivial=lambda c, f: bool(f & {'templated', 'global-class', 'with-enums', 'virtual',
                                      'with-serialize', 'delete-unrelated'}),
    rule="Hypothesis draws a semantic-profile module and either a class X (global or namespaced, "
         "plain or templated - then all its instantiations -, virtual, with enums / properties / "
         "serialize) that no typedef names, or an unrelated declaration D (function, enum, "
         "variable, forward declaration, class). Oracle (metamorphic): pybind TU with X ignored "
         "(C++ spelling) == TU of the input without X, byte for byte; MATLAB toolbox with X "
         "ignored (namespace-qualified instantiated name) == toolbox of the input without X "
         "after rank-normalising gateway ids; deleting D removes only statements that mention D "
         "and leaves every other classdef unchanged (ids rank-normalised per file). Both "
         "serialization settings. Non-trivial: X templated / global / virtual / with enums / "
         "with serialize, or a D deletion.",
    budget={'quick': 40, 'thorough': 1000},
    size=lambda c: len(R.text(c['m'])),
    sample_fn=lambda c: {k: (v if k != 'm' else R.text(v)[:1000]) for k, v in c.items()},
    shrink_budget=60,
)
