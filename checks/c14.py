"""C14 - Generation is a pure, repeatable function of inputs and options.

Differential against a reference run (in-process library call, default environment): a child
process running the scripts / the API under a drawn configuration (PYTHONHASHSEED, working
directory, locale, UTF-8 mode, earlier wrap calls on the same PybindWrapper, output location
holding the output of an earlier *different* run, several processes at once in one build
directory) must produce byte-identical files, and - observed through sys.addaudithook in the
child - must write only the requested outputs and read only inputs, templates and the
interpreter / package files.
"""
from __future__ import annotations

import json
import os
import shutil
import subprocess
import sys
import sysconfig
import time
from dataclasses import replace

from hypothesis import strategies as st

from vlib import gen as G
from vlib import model as M
from vlib import render as R
from vlib import wraps
from vlib.runner import REPO, ROOT, Failure, Spec
from checks import pycommon as PC

DRIVER = os.path.join(ROOT, 'vlib', 'c14_driver.py')
LOCALES = [('C', '0'), ('C.UTF-8', '0'), ('POSIX', '0'), ('C', '1'), ('C.UTF-8', '1')]


def profile():
    return replace(PC.profile(), name='c14', max_items=4, global_typedefs=False,
                   favourite_members=('print', 'svg', 'print'))


def _variant(text: str) -> str:
    """Same-length different input: the first lower-case identifier of >= 3 letters that is a
    member/function name is rewritten letter-for-letter."""
    import re
    m = re.search(r'\b([a-z][a-z0-9_]{2,})\s*\(', text)
    if not m:
        return text + ' '
    w = m.group(1)
    new = w[:-1] + ('x' if w[-1] != 'x' else 'y')
    return re.sub(r'\b%s\b' % re.escape(w), new, text)


@st.composite
def cases(draw, tier):
    n_jobs = draw(st.sampled_from([1, 1, 1, 3, 5]))
    jobs = []
    for j in range(n_jobs):
        m = draw(G.modules(profile()))
        text = R.text(m)
        if draw(st.integers(0, 3)) == 0:
            text += '// café 日本\n'
        if draw(st.integers(0, 3)) == 0:
            # a serializable instantiation whose C++ name contains a comma (exported through
            # a typedef alias)
            text += 'template<ZT = {double}, ZU = {int, bool}> class ZzPair { void serialize() const; };\n'
        if draw(st.integers(0, 3)) == 0:
            # non-ASCII text that reaches the generated files
            text += 'void zuerich(string where = "Zürich 日本");\n'
        paths = PC.ns_paths(m)
        top = list(draw(st.sampled_from(paths))) if paths and draw(st.booleans()) else []
        jobs.append({
            'text': text,
            'mode': draw(st.sampled_from(['api-pybind-history', 'script-pybind', 'script-matlab',
                                          'script-pybind-sub', 'api-matlab'])),
            'top': top, 'boost': draw(st.booleans()),
            'ignore': draw(st.sampled_from([[''], ['gtsam::A'], ['A', 'ns1::B']])),
            'history': [R.text(draw(G.modules(profile())))
                        for _ in range(draw(st.integers(0, 3)))],
            # which earlier wrap calls of the process used an object of their own
            'fresh': draw(st.lists(st.booleans(), min_size=3, max_size=3)),
            'final_fresh': draw(st.booleans()),
            # further interface files of the module (only their names matter to the main file)
            'subs': draw(st.lists(st.sampled_from(SUB_STEMS), max_size=5, unique=True)),
            'stale': draw(st.booleans()),
            'delay': draw(st.integers(0, 20)),
        })
    cfg = {'hashseed': draw(st.sampled_from(['0', '1', 'random', str(draw(st.integers(
                2, 2 ** 32 - 1)))])),
           'cwd': draw(st.sampled_from(['build', 'src', 'root', 'odd'])),
           'locale': draw(st.sampled_from(LOCALES)),
           'repeat': draw(st.sampled_from([1, 1, 2]))}
    return {'jobs': jobs, 'cfg': cfg}


SUB_STEMS = ['geometry', 'nav', 'slam', 'base', 'linear', 'nonlinear', 'sfm', 'basis', 'a', 'b2']


def _reference(job, tpl):
    """Expected outputs {relative name: bytes-as-str} from an in-process library call."""
    top = [''] + job['top']
    if job['mode'] in ('script-pybind', 'api-pybind-history'):
        return {'OUT': wraps.pybind_text(job['text'], top=top, ignore=job['ignore'],
                                         boost=job['boost'], module_name='mymod', tpl=tpl,
                                         submodules=job.get('subs', []))}
    if job['mode'] == 'script-pybind-sub':
        w = wraps.pybind_wrapper(top=top, ignore=job['ignore'], boost=job['boost'],
                                 module_name='mymod', tpl=tpl)
        return {'OUT': w.wrap_file(job['text'], module_name='STEM')}
    return wraps.matlab_tree([job['text']], module_name='mymod', ignore=job['ignore'],
                             boost=job['boost'], top=top)


def _allowed_read(path, inputs):
    if path in inputs:
        return True
    roots = {sys.prefix, sys.base_prefix, sys.exec_prefix, sysconfig.get_paths()['stdlib'],
             sysconfig.get_paths()['purelib'], os.path.join(REPO, 'gtwrap'),
             os.path.join(REPO, 'scripts'), os.path.dirname(DRIVER), '/usr/lib', '/usr/share',
             '/etc', '/proc', '/dev', '/root/.pyenv', os.path.join(REPO, 'gtwrap.egg-info')}
    return any(path == r or path.startswith(r.rstrip('/') + '/') for r in roots)


def check(case):
    out = []
    d = wraps.scratch_dir('c14')
    try:
        tplfile = os.path.join(d, 'module.tpl')
        tpl = wraps.PYBIND_TPL
        with open(tplfile, 'w') as f:
            f.write(tpl)
        build = os.path.join(d, 'build')
        srcd = os.path.join(d, 'src')
        odd = os.path.join(d, 'odd dir é')
        for p in (build, srcd, odd):
            os.makedirs(p)
        cfg = case['cfg']
        cwd = {'build': build, 'src': srcd, 'root': '/', 'odd': odd}[cfg['cwd']]
        procs = []
        plans = []
        for j, job in enumerate(case['jobs']):
            try:
                ref = _reference(job, tpl)
            except Exception as e:
                ref = 'RAISES ' + type(e).__name__
            stem = 'part%d' % j
            src = os.path.join(srcd, stem + '.i')
            with open(src, 'w', encoding='utf-8') as f:
                f.write(job['text'])
            report = os.path.join(d, 'report%d.json' % j)
            top = [''] + job['top']
            o = {'module_name': 'mymod', 'top': top, 'boost': job['boost'],
                 'ignore': job['ignore']}
            jb = {'repo': REPO, 'report': report, 'start_delay_ms': job['delay'],
                  'template': tplfile}
            mode = job['mode']
            run_cwd = cwd
            if mode in ('script-pybind', 'api-pybind-history'):
                outp = os.path.join(build, 'out%d.cpp' % j)
                outputs = {outp: 'OUT'}
            elif mode == 'script-pybind-sub':
                run_cwd = build  # the sub-module TU is written to the working directory
                outp = os.path.join(build, stem + '.cpp')
                outputs = {outp: 'OUT'}
            else:
                outp = os.path.join(build, 'toolbox%d' % j)
                outputs = None  # tree
            if job['stale'] and isinstance(ref, dict):
                # output of an earlier, different run (same sizes, different bytes)
                try:
                    stale_job = dict(job, text=_variant(job['text']))
                    stale = _reference(stale_job, tpl)
                    if outputs is not None:
                        with open(outp, 'w', encoding='utf-8') as f:
                            f.write(stale['OUT'].replace('STEM', stem))
                    else:
                        for rel, content in stale.items():
                            p = os.path.join(outp, rel)
                            os.makedirs(os.path.dirname(p), exist_ok=True)
                            with open(p, 'w', encoding='utf-8') as f:
                                f.write(content)
                except Exception:
                    pass
            common = ['--module_name', 'mymod', '--top_module_namespaces',
                      '::'.join(job['top']), '--ignore'] + job['ignore']
            boost = ['--use-boost-serialization'] if job['boost'] else []
            subs = [os.path.join(srcd, x + '.i') for x in job.get('subs', [])]
            if mode == 'script-pybind':
                jb.update(mode='script-pybind', argv=['--src', ';'.join([src] + subs), '--out', outp,
                                                      '--template', tplfile] + common + boost)
            elif mode == 'script-pybind-sub':
                jb.update(mode='script-pybind', argv=['--src', src, '--out', 'unused.cpp',
                                                      '--template', tplfile, '--is_submodule']
                          + common + boost)
            elif mode == 'script-matlab':
                jb.update(mode='script-matlab', argv=['--src', src, '--out', outp] + common +
                          boost)
            elif mode == 'api-pybind-history':
                jb.update(mode=mode, options=o, history=job['history'], sources=[src] + subs,
                          out=outp, fresh=job.get('fresh', []),
                          final_fresh=job.get('final_fresh', False))
            else:
                jb.update(mode=mode, options=o, sources=[src], out=outp)
            jobfile = os.path.join(d, 'job%d.json' % j)
            json.dump(jb, open(jobfile, 'w'))
            env = dict(os.environ, PYTHONHASHSEED=cfg['hashseed'], LC_ALL=cfg['locale'][0],
                       LANG=cfg['locale'][0], PYTHONUTF8=cfg['locale'][1])
            env.pop('PYTHONPATH', None)
            plans.append((job, ref, outputs, outp, report, stem, src, jobfile, env, run_cwd))
        for rep in range(cfg['repeat']):
            procs = [subprocess.Popen([sys.executable, DRIVER, p[7]], cwd=p[9], env=p[8],
                                      stdout=subprocess.PIPE, stderr=subprocess.PIPE)
                     for p in plans]
            for pr in procs:
                try:
                    pr.communicate(timeout=600)
                except subprocess.TimeoutExpired:
                    pr.kill()
                    raise RuntimeError('INCONCLUSIVE: child did not finish in 600 s')
            for (job, ref, outputs, outp, report, stem, src, jobfile, env, run_cwd), pr in \
                    zip(plans, procs):
                label = '%s [%s]' % (job['mode'], ', '.join('%s=%s' % kv for kv in
                                                            case['cfg'].items()))
                if not os.path.exists(report):
                    out.append(Failure('C14.child-crashed', label))
                    continue
                rp = json.load(open(report))
                failed = rp['status'] != 'ok'
                if failed != isinstance(ref, str):
                    out.append(Failure('C14.outcome-differs', '%s: child %s, reference %s' % (
                        label, rp['status'], ref if isinstance(ref, str) else 'ok')))
                    continue
                if isinstance(ref, str):
                    continue
                # ---- bytes
                if outputs is not None:
                    got = {'OUT': open(outp, encoding='utf-8').read()} \
                        if os.path.exists(outp) else {}
                    want = {'OUT': ref['OUT'].replace('STEM', stem)}
                    produced = {outp}
                else:
                    got = wraps.read_tree(outp) if os.path.isdir(outp) else {}
                    want = ref
                    produced = {os.path.join(outp, k) for k in ref}
                    if job['stale']:
                        got = {k: v for k, v in got.items() if k in want}
                if got != want:
                    bad = sorted(k for k in set(got) | set(want) if got.get(k) != want.get(k))
                    out.append(Failure('C14.output-differs', '%s: files differing from the '
                                       'reference run: %s' % (label, bad[:4])))
                # ---- file access
                inputs = {src, jobfile, p_tpl(plans), DRIVER,
                          os.path.join(REPO, 'gtwrap', 'matlab_wrapper', 'matlab_wrapper.tpl')}
                for ev, path in rp['events']:
                    if ev == 'open-w':
                        if path not in produced and path != report:
                            out.append(Failure('C14.unrequested-write', '%s: wrote %s' % (
                                label, path)))
                    elif ev == 'open-r':
                        if not _allowed_read(path, inputs) and path not in produced:
                            out.append(Failure('C14.unrequested-read', '%s: read %s' % (
                                label, path)))
                    elif ev == 'os.mkdir':
                        if not (outputs is None and (path == outp or
                                                     path.startswith(outp + '/'))):
                            out.append(Failure('C14.unrequested-write', '%s: mkdir %s' % (
                                label, path)))
                    else:
                        out.append(Failure('C14.unrequested-effect', '%s: %s %s' % (
                            label, ev, path)))
        # nothing else appeared in the build / source directories
        listing = set()
        for root in (build, srcd, odd):
            for dp, dn, fn in os.walk(root):
                for f in fn:
                    listing.add(os.path.join(dp, f))
        allowed = set()
        for (job, ref, outputs, outp, report, stem, src, jobfile, env, run_cwd) in plans:
            allowed.add(src)
            if outputs is not None:
                allowed.add(outp)
        for f in sorted(listing - allowed):
            if not any(f.startswith(p[3] + '/') for p in plans if p[2] is None):
                out.append(Failure('C14.stray-file', 'unexpected file %s' % f))
    finally:
        shutil.rmtree(d, ignore_errors=True)
    # de-duplicate
    seen, uniq = set(), []
    for f in out:
        if (f.clause, f.detail) not in seen:
            seen.add((f.clause, f.detail))
            uniq.append(f)
    return uniq


def p_tpl(plans):
    return os.path.join(os.path.dirname(plans[0][7]), 'module.tpl')


def features(case):
    f = set()
    cfg = case['cfg']
    f.add('hashseed-' + ('fixed' if cfg['hashseed'] in ('0', '1') else 'other'))
    f.add('cwd-' + cfg['cwd'])
    f.add('locale-%s-utf8mode%s' % cfg['locale'] if isinstance(cfg['locale'], tuple)
          else 'locale-%s-utf8mode%s' % tuple(cfg['locale']))
    if len(case['jobs']) > 1:
        f.add('parallel-%d' % len(case['jobs']))
    if cfg['repeat'] > 1:
        f.add('repeated')
    for j in case['jobs']:
        f.add('mode-' + j['mode'])
        if j['history']:
            f.add('history')
            if j['mode'] == 'api-pybind-history' and (any(j.get('fresh', [])[:len(j['history'])])
                                                      or j.get('final_fresh')):
                f.add('history-other-wrapper-objects')
        if len(j.get('subs', [])) >= 2 and j['mode'] in ('script-pybind', 'api-pybind-history'):
            f.add('several-submodules')
        if j['stale']:
            f.add('stale-previous-output')
    return f


SPEC = Spec(
    pid='C14',
    strategy=lambda tier: cases(tier),
    check=check,
    describe=lambda c: c,
    from_replay=lambda o: dict(o, cfg=dict(o['cfg'], locale=tuple(o['cfg']['locale']))),
    key=lambda c: json.dumps(c, sort_keys=True, default=str),
    features=features,
    nontrivial=lambda c, f: bool(f & {'hashseed-other', 'cwd-root', 'cwd-odd', 'cwd-src',
                                      'history', 'stale-previous-output', 'repeated'}) or
    len(c['jobs']) > 1,
    rule="Hypothesis draws 1, 3 or 5 generation jobs (semantic-profile input, options, one of: "
         "pybind script, pybind script --is_submodule, MATLAB script, PybindWrapper API after "
         "0..3 earlier wrap_file calls on the same or on other PybindWrapper objects of the "
         "process, MatlabWrapper API; the pybind main-module jobs name 0..5 further interface "
         "files) and one "
         "configuration: PYTHONHASHSEED (0, 1, 'random', a drawn 32-bit value), working directory "
         "(build dir, source dir, '/', a directory with a space and a non-ASCII letter), locale "
         "(C, C.UTF-8, POSIX) x PYTHONUTF8, repetition, output location optionally pre-filled "
         "with the output of an earlier run on a same-length different input. All jobs of a case "
         "start together (staggered 0-20 ms) in one build directory. Oracle: every produced file "
         "is byte-identical to an in-process reference run; via sys.addaudithook in the child, "
         "every file opened for writing is a requested output and every file opened for reading "
         "is an input, the template, or under the interpreter / gtwrap package directories; no "
         "other file appears. Non-trivial: non-default hash seed / cwd, history, stale output, "
         "repetition or parallel jobs.",
    budget={'quick': 12, 'thorough': 120},
    size=lambda c: sum(len(j['text']) for j in c['jobs']),
    sample_fn=lambda c: {'cfg': c['cfg'], 'jobs': [{k: (v if k not in ('text', 'history') else
                                                       str(v)[:300]) for k, v in j.items()}
                                                  for j in c['jobs']]},
    shrink_budget=15,
    assumptions=["the harness does not own the OS scheduler: parallel runs sample real schedules",
                 "MatlabWrapper is single-shot by design: no reuse history is generated for it",
                 "locales available in this sandbox: C, C.utf8, POSIX"],
)
