"""C17 - Embedded docstrings are the right text, correctly escaped, change nothing else.

Case: a small interface (classes with overloaded methods / static methods) + a generated Doxygen
XML directory (index.xml + one file per class, modelled on tests/expected/xml) with drawn faults
and documentation texts over all of XML-1.0 Unicode.
Oracle in three independent parts:
  selection - every memberdef carries a unique marker DOC#n# in its brief text; the literal of
              each binding must contain the marker of the member the reference rule selects
              (same class, same name, parameter names equal on the first len(args) parameters,
              arity = required or total count; k-th binding with that key <-> k-th candidate)
              and no other; absent / undocumented / faulty documentation -> "", no exception;
  escaping  - the literal, decoded by an independent C++ string-literal decoder, equals the
              UTF-8 encoding of the text extract_docstring returns to the harness for the same
              call sequence;
  isolation - removing the literals gives exactly the output generated without XML.
"""
from __future__ import annotations

import os
import re
import shutil
import xml.etree.ElementTree as ET

from hypothesis import strategies as st

from vlib import pyscan, wraps
from vlib.runner import Failure, Spec

NAMES = ['f', 'g', 'insert', 'at', 'print', 'update', 'pass', 'in', 'html', 'svg', 'is']
ARGS = ['x', 'y', 'key', 'value', 'j', 'n']
TYPES = ['int', 'double', 'string', 'size_t', 'const gtsam::Pose3&', 'bool']
SPECIAL = ['"', "'", '\\', '\n', '\t', '\r', '\x85', '\xa0', '\xad', '\x07', '\x1b', '??/', '%',
           '{}', '{0}', 'é', '日本', '\U0001F600', 'b', 'f', '0', '\\n', '\\"', ' ',
           '﻿', '\x7f', '"""', "''", ' ', 'DOC', '\\x41', '\x9f', '\x80b', '\xa0f',
           '\x0bA', 'end\\']


def xml_chars():
    return st.characters(
        blacklist_categories=('Cs',),
        blacklist_characters=[chr(i) for i in range(0x20) if i not in (9, 10, 13)] +
        ['￾', '￿'])


@st.composite
def doc_text(draw):
    parts = draw(st.lists(st.one_of(st.sampled_from(SPECIAL), st.sampled_from(SPECIAL),
                                    st.text(xml_chars(), max_size=6),
                                    st.sampled_from(['Computes the', 'value', 'of x.'])),
                          max_size=6))
    s = ''.join(parts)
    # characters XML 1.0 cannot carry are not part of the domain
    return ''.join(c for c in s if c in '\t\n\r' or ord(c) >= 0x20)


@st.composite
def cases(draw, tier):
    classes = []
    ncls = draw(st.integers(1, 3))
    counter = [0]

    def marker():
        counter[0] += 1
        return 'DOC#%d#' % counter[0]
    used_names = set()
    for ci in range(ncls):
        ns = draw(st.sampled_from([[], ['gtsam'], ['a', 'b']]))
        cname = draw(st.sampled_from(['A', 'B', 'Graph', 'Factor', 'Cal3']).filter(
            lambda n: (tuple(ns), n) not in used_names))
        used_names.add((tuple(ns), cname))
        methods = []
        if classes and draw(st.integers(0, 2)) == 0:
            # sibling classes share an interface (Pose2 / Pose3): same methods, own documentation
            import copy
            methods = copy.deepcopy(draw(st.sampled_from(classes))['methods'])
        for _ in range(draw(st.integers(1, 5)) if not methods else 0):
            name = draw(st.sampled_from(NAMES))
            k = draw(st.integers(0, 3))
            args = draw(st.lists(st.sampled_from(ARGS), min_size=k, max_size=k, unique=True))
            methods.append({'name': name, 'args': args,
                            'types': [draw(st.sampled_from(TYPES)) for _ in args],
                            'static': draw(st.integers(0, 3)) == 0})
        if methods and draw(st.integers(0, 5)) == 0:
            # overloads that differ in parameter types only: same name, same parameter names,
            # some of them without documentation (more bindings than documented members)
            import copy
            m0 = draw(st.sampled_from(methods))
            methods = methods + [copy.deepcopy(m0), copy.deepcopy(m0)]
        # documentation
        fault = draw(st.sampled_from(['none', 'none', 'none', 'none', 'not-in-index',
                                      'file-missing', 'file-truncated', 'file-empty']))
        members = []
        for m in methods:
            if draw(st.integers(0, 4)) == 0:
                continue  # undocumented method
            extra = draw(st.integers(0, 2))
            params = [{'declname': a, 'defval': False} for a in m['args']]
            if params and draw(st.integers(0, 2)) == 0:
                # the interface lists optional parameters too: the last nd of them have defaults
                nd = draw(st.integers(1, len(params)))
                for p_ in params[len(params) - nd:]:
                    p_['defval'] = True
            for e in range(extra):
                params.append({'declname': 'opt%d' % e, 'defval': True})
            if params and draw(st.integers(0, 5)) == 0:
                params[0] = dict(params[0], use_defname=True)
            members.append({'name': m['name'], 'params': params, 'marker': marker(),
                            'brief': draw(doc_text()), 'detail': draw(doc_text()),
                            'paramdocs': draw(st.booleans()), 'returns': draw(doc_text())
                            if draw(st.booleans()) else None,
                            'no_brief': draw(st.integers(0, 6)) == 0})
        # decoys: same name, other parameter names / arity
        for _ in range(draw(st.integers(0, 3))):
            name = draw(st.sampled_from(NAMES))
            k = draw(st.integers(0, 3))
            names = draw(st.lists(st.sampled_from(ARGS + ['other', 'z']), min_size=k,
                                  max_size=k, unique=True))
            members.append({'name': name, 'params': [{'declname': a, 'defval': draw(
                st.booleans()) and i == len(names) - 1} for i, a in enumerate(names)],
                'marker': marker(), 'brief': draw(doc_text()), 'detail': '',
                'paramdocs': False, 'returns': None, 'no_brief': False})
        members = draw(st.permutations(members))
        classes.append({'ns': ns, 'name': cname, 'methods': methods, 'fault': fault,
                        'members': list(members),
                        'kind': draw(st.sampled_from(['class', 'class', 'struct']))})
    index_fault = draw(st.sampled_from(['none'] * 6 + ['missing', 'truncated']))
    return {'classes': classes, 'index_fault': index_fault,
            'compile': draw(st.integers(0, 3)) == 0,
            # an earlier run of the process saw other documentation at the same path
            'stale_first': draw(st.integers(0, 3)) == 0}


def interface_text(case):
    out = []
    for c in case['classes']:
        body = ['class %s {' % c['name'], '  %s();' % c['name']]
        for m in c['methods']:
            args = ', '.join('%s %s' % (t, a) for t, a in zip(m['types'], m['args']))
            if m['static']:
                body.append('  static void %s(%s);' % (m['name'], args))
            else:
                body.append('  double %s(%s) const;' % (m['name'], args))
        body.append('};')
        text = '\n'.join(body)
        for n in reversed(c['ns']):
            text = 'namespace %s {\n%s\n}' % (n, text)
        out.append(text)
    return '\n'.join(out) + '\n'


def write_xml(case, root):
    os.makedirs(root, exist_ok=True)
    index = ET.Element('doxygenindex', version='1.8.11')
    for i, c in enumerate(case['classes']):
        cpp = '::'.join(c['ns'] + [c['name']])
        refid = 'class%d_%s' % (i, c['name'])
        if c['fault'] != 'not-in-index':
            comp = ET.SubElement(index, 'compound', refid=refid, kind=c.get('kind', 'class'))
            ET.SubElement(comp, 'name').text = cpp
        if c['fault'] == 'file-missing':
            continue
        dox = ET.Element('doxygen', version='1.8.11')
        cd = ET.SubElement(dox, 'compounddef', id=refid, kind=c.get('kind', 'class'))
        ET.SubElement(cd, 'compoundname').text = cpp
        sec = ET.SubElement(cd, 'sectiondef', kind='public-func')
        for md in c['members']:
            e = ET.SubElement(sec, 'memberdef', kind='function', id=refid + '_' + md['marker'])
            ET.SubElement(e, 'type').text = 'double'
            ET.SubElement(e, 'argsstring').text = '(%s)' % ', '.join(
                p['declname'] for p in md['params'])
            ET.SubElement(e, 'name').text = md['name']
            for p in md['params']:
                pe = ET.SubElement(e, 'param')
                ET.SubElement(pe, 'type').text = 'int'
                ET.SubElement(pe, 'defname' if p.get('use_defname') else 'declname').text = \
                    p['declname']
                if p.get('use_defname'):
                    pass
                if p['defval']:
                    ET.SubElement(pe, 'defval').text = '0'
            b = ET.SubElement(e, 'briefdescription')
            if not md['no_brief']:
                ET.SubElement(b, 'para').text = md['marker'] + ' ' + md['brief']
            d = ET.SubElement(e, 'detaileddescription')
            if md['detail'] or md['paramdocs'] or md['returns'] is not None:
                para = ET.SubElement(d, 'para')
                para.text = md['detail']
                if md['paramdocs'] and md['params']:
                    pl = ET.SubElement(para, 'parameterlist', kind='param')
                    for p in md['params']:
                        if p.get('use_defname'):
                            continue
                        pi = ET.SubElement(pl, 'parameteritem')
                        nl = ET.SubElement(pi, 'parameternamelist')
                        ET.SubElement(nl, 'parametername').text = p['declname']
                        pd = ET.SubElement(pi, 'parameterdescription')
                        ET.SubElement(pd, 'para').text = 'about ' + p['declname']
                if md['returns'] is not None:
                    ss = ET.SubElement(para, 'simplesect', kind='return')
                    ET.SubElement(ss, 'para').text = md['returns']
        data = ET.tostring(dox, encoding='utf-8', xml_declaration=True)
        if c['fault'] == 'file-truncated':
            data = data[:max(10, len(data) // 2)]
        elif c['fault'] == 'file-empty':
            data = b''
        with open(os.path.join(root, refid + '.xml'), 'wb') as f:
            f.write(data)
    if case['index_fault'] != 'missing':
        data = ET.tostring(index, encoding='utf-8', xml_declaration=True)
        if case['index_fault'] == 'truncated':
            data = data[:max(10, len(data) // 2)]
        with open(os.path.join(root, 'index.xml'), 'wb') as f:
            f.write(data)


# ------------------------------------------------------------------ reference selection

def ordered(c):
    """Binding order within a class: instance methods, then static methods."""
    return [m for m in c['methods'] if not m['static']] + \
        [m for m in c['methods'] if m['static']]


def expected_markers(case):
    """For every binding in generation order -> marker or None."""
    out = []
    for c in case['classes']:
        usable = case['index_fault'] == 'none' and c['fault'] == 'none'
        seen = {}
        for m in ordered(c):
            if not usable:
                out.append(None)
                continue
            cands = []
            for md in c['members']:
                if md['name'] != m['name']:
                    continue
                tot = len(md['params'])
                req = tot - sum(1 for p in md['params'] if p['defval'])
                if len(m['args']) not in (req, tot):
                    continue
                if [p['declname'] for p in md['params'][:len(m['args'])]] != m['args']:
                    continue
                cands.append(md)
            key = (m['name'], tuple(m['args']))
            k = seen.get(key, 0)
            seen[key] = k + 1
            if not cands:
                out.append(None)
            elif len(cands) == 1:
                out.append(cands[0])
            else:
                out.append(cands[k] if k < len(cands) else 'BEYOND')
    return out


# ------------------------------------------------------------------ C++ literal decoder

def decode_cpp_literal(lit: str) -> bytes:
    """Decode the inside of a narrow C++ string literal (source and execution charset UTF-8)
    the way a conforming compiler does: \\x takes ALL following hex digits, octal up to three."""
    out = bytearray()
    i = 0
    simple = {'n': 10, 't': 9, 'r': 13, 'a': 7, 'b': 8, 'f': 12, 'v': 11, '\\': 92, '"': 34,
              "'": 39, '?': 63}
    while i < len(lit):
        c = lit[i]
        if c == '"':
            raise ValueError('unescaped double quote inside literal at %d' % i)
        if c == '\n':
            raise ValueError('raw newline inside literal at %d' % i)
        if c != '\\':
            out += c.encode('utf-8')
            i += 1
            continue
        i += 1
        if i >= len(lit):
            raise ValueError('literal ends in a backslash')
        e = lit[i]
        if e in simple:
            out.append(simple[e])
            i += 1
        elif e == 'x':
            j = i + 1
            while j < len(lit) and lit[j] in '0123456789abcdefABCDEF':
                j += 1
            if j == i + 1:
                raise ValueError('\\x without digits')
            v = int(lit[i + 1:j], 16)
            if v > 0xff:
                raise ValueError('hex escape \\x%s out of range for char' % lit[i + 1:j])
            out.append(v)
            i = j
        elif e in '01234567':
            j = i
            while j < len(lit) and j < i + 3 and lit[j] in '01234567':
                j += 1
            out.append(int(lit[i:j], 8) & 0xff)
            i = j
        elif e == 'u':
            out += chr(int(lit[i + 1:i + 5], 16)).encode('utf-8', 'surrogatepass')
            i += 5
        elif e == 'U':
            out += chr(int(lit[i + 1:i + 9], 16)).encode('utf-8', 'surrogatepass')
            i += 9
        else:
            raise ValueError('unknown escape \\%s' % e)
    return bytes(out)


# ------------------------------------------------------------------ the check

def compiler_bytes(literals, d):
    """What g++ -std=c++17 makes of the string literals (with their quotes): list of bytes, or
    an error text.  The generated code is C++: this is the decoder the property speaks of."""
    import subprocess
    src = ['#include <cstdio>']
    for i, lit in enumerate(literals):
        src.append('static const char a%d[] = %s;' % (i, lit))
    src.append('int main() {')
    for i in range(len(literals)):
        src.append('  for (unsigned k = 0; k + 1 < sizeof(a%d); ++k) std::printf("%%02x", '
                   '(unsigned char)a%d[k]); std::printf("\\n");' % (i, i))
    src.append('  return 0; }')
    cpp = os.path.join(d, 'lits.cpp')
    with open(cpp, 'w', encoding='utf-8', errors='surrogateescape') as f:
        f.write('\n'.join(src) + '\n')
    exe = os.path.join(d, 'lits')
    r = subprocess.run(['g++', '-std=c++17', '-O0', '-w', cpp, '-o', exe], capture_output=True,
                       text=True, timeout=600)
    if r.returncode != 0:
        return next((l for l in r.stderr.splitlines() if 'error' in l), r.stderr[:200])[:200]
    r = subprocess.run([exe], capture_output=True, text=True, timeout=60)
    return [bytes.fromhex(l) for l in r.stdout.split('\n')[:len(literals)]]


def check(case):
    out = []
    d = wraps.scratch_dir('c17')
    try:
        xml_root = os.path.join(d, 'xml')
        text = interface_text(case)
        import io
        import contextlib
        import copy
        buf = io.StringIO()
        if case.get('stale_first'):
            old = copy.deepcopy(case)
            old['index_fault'] = 'none'
            for c in old['classes']:
                c['fault'] = 'none'
                for md in c['members']:
                    md.update(brief='STALE TEXT', detail='stale', returns='stale',
                              marker='DOC#0#', no_brief=False)
            write_xml(old, xml_root)
            try:
                with contextlib.redirect_stdout(buf):
                    wraps.pybind_text(text, xml_source=xml_root)
            except Exception:
                pass
            shutil.rmtree(xml_root)
        write_xml(case, xml_root)
        plain = wraps.pybind_text(text)
        try:
            with contextlib.redirect_stdout(buf):
                doc = wraps.pybind_text(text, xml_source=xml_root)
        except Exception as e:
            return [Failure('C17.raises', 'generation with XML raises %s: %s' % (
                type(e).__name__, str(e)[:200]))]
        try:
            stmts = pyscan.scan_body(pyscan.extract_body(doc))
        except pyscan.ScanError as e:
            return [Failure('C17.escaping', 'generated code cannot be scanned (literal breaks '
                            'the statement): %s' % str(e)[:200])]
        calls = [c for s in stmts for c in s.calls if c.kind in ('def', 'def_static')]
        want = expected_markers(case)
        # what the harness gets from extract_docstring for the same call sequence
        from gtwrap.xml_parser.xml_parser import XMLDocParser
        parser = XMLDocParser()
        texts = []
        with contextlib.redirect_stdout(buf):
            for c in case['classes']:
                cpp = '::'.join(c['ns'] + [c['name']])
                for m in ordered(c):
                    try:
                        texts.append(parser.extract_docstring(xml_root, cpp, m['name'],
                                                              list(m['args'])))
                    except Exception as e:
                        texts.append(e)
        bindings = [c for c in calls if c.pyname != '__repr__']
        if len(bindings) != len(want):
            return [Failure('C17.isolation', '%d method bindings, expected %d' % (
                len(bindings), len(want)))]
        stripped = doc
        wrapped = [m for c in case['classes'] for m in ordered(c)]
        # every 4th case: the compiler's reading of the literals (1 g++ run per case)
        by_compiler = {}
        if case.get('compile'):
            lits = [c.doc.strip() for c in bindings if c.doc is not None and
                    c.doc.strip().startswith('"') and c.doc.strip().endswith('"')]
            if lits:
                got = compiler_bytes(lits, d)
                if isinstance(got, str):
                    out.append(Failure('C17.escaping', 'g++ rejects a docstring literal: ' + got))
                else:
                    by_compiler = dict(zip(lits, got))
        for call, md, ext, wm in zip(bindings, want, texts, wrapped):
            if call.doc is None:
                out.append(Failure('C17.selection', 'binding %s has no docstring literal' %
                                   call.pyname))
                continue
            lit = call.doc.strip()
            if not (lit.startswith('"') and lit.endswith('"') and len(lit) >= 2):
                out.append(Failure('C17.escaping', 'docstring of %s is not one string literal: '
                                   '%r' % (call.pyname, lit[:80])))
                continue
            try:
                decoded = decode_cpp_literal(lit[1:-1])
            except ValueError as e:
                out.append(Failure('C17.escaping', 'literal of %s is ill-formed: %s; %r' % (
                    call.pyname, e, lit[:80])))
                continue
            if lit in by_compiler and by_compiler[lit] != decoded:
                raise RuntimeError('harness: literal decoder disagrees with g++ on %r: %r vs %r'
                                   % (lit[:80], decoded[:60], by_compiler[lit][:60]))
            try:
                dtext = decoded.decode('utf-8')
            except UnicodeDecodeError:
                dtext = decoded.decode('utf-8', 'replace')
                out.append(Failure('C17.escaping', 'literal of %s decodes to bytes that are not '
                                   'UTF-8: %r from %r' % (call.pyname, decoded[:60], lit[:80])))
            markers = re.findall(r'DOC#\d+#', dtext)
            if md is None:
                if decoded != b'':
                    out.append(Failure('C17.selection', '%s should have an empty docstring '
                                       '(undocumented / missing / unreadable), has %r' % (
                                           call.pyname, dtext[:80])))
            elif md == 'BEYOND':
                pass
            else:
                exp_markers = [] if md['no_brief'] else [md['marker']]
                if markers != exp_markers:
                    out.append(Failure('C17.selection', '%s(%s) carries the documentation %s, '
                                       'expected %s' % (call.pyname, ','.join(
                                           a.name for a in call.pyargs), markers, exp_markers)))
                elif md['paramdocs']:
                    # the member's documentation includes what it says about each parameter
                    # the binding has
                    for p_ in md['params']:
                        if p_.get('use_defname') or p_['declname'] not in wm['args']:
                            continue
                        line = '%s: about %s' % (p_['declname'], p_['declname'])
                        if line not in dtext:
                            out.append(Failure('C17.content', '%s(%s): the documentation of '
                                               'parameter %s is missing from %r' % (
                                                   call.pyname, ','.join(wm['args']),
                                                   p_['declname'], dtext[:120])))
                            break
            if isinstance(ext, Exception):
                pass
            elif decoded != ext.encode('utf-8', 'surrogatepass') and \
                    not any(f.clause == 'C17.escaping' and call.pyname in f.detail for f in out):
                out.append(Failure('C17.escaping', 'literal of %s decodes to %r, extracted text '
                                   'is %r' % (call.pyname, decoded[:60],
                                              ext.encode('utf-8', 'surrogatepass')[:60])))
        # isolation: delete ', "literal"' occurrences
        rebuilt = doc
        pos = 0
        for call in bindings:
            # each binding in turn, from where its .def("name" starts
            at = rebuilt.find('("%s"' % call.pyname, pos)
            if at < 0:
                at = pos
            if call.doc is not None:
                pat = ', ' + call.doc.strip() + ')'
                k = rebuilt.find(pat, at)
                if k >= 0:
                    rebuilt = rebuilt[:k] + ')' + rebuilt[k + len(pat):]
                    at = k
            pos = at + 1
        if rebuilt != plain:
            la, lb = rebuilt.splitlines(), plain.splitlines()
            dd = next(('line %d: %r vs %r' % (i + 1, x[:100], y[:100])
                       for i, (x, y) in enumerate(zip(la, lb)) if x != y), 'length')
            out.append(Failure('C17.isolation', 'output minus docstring literals differs from '
                               'output without XML: ' + dd))
    finally:
        shutil.rmtree(d, ignore_errors=True)
    return out


def features(case):
    f = set()
    if case.get('compile'):
        f.add('literals-decoded-by-g++')
    if case.get('stale_first'):
        f.add('other-docs-at-the-same-path-earlier-in-the-process')
    if any(c.get('kind') == 'struct' for c in case['classes']):
        f.add('doxygen-kind-struct')
    for c in case['classes']:
        if c['fault'] != 'none':
            f.add('fault-' + c['fault'])
        keys = [(m['name'], tuple(m['args'])) for m in c['methods']]
        if len(keys) != len(set(keys)):
            f.add('overloads-identical-parameter-names')
        if len({m['name'] for m in c['methods']}) < len(c['methods']):
            f.add('overloads')
        for md in c['members']:
            t = md['brief'] + md['detail'] + (md['returns'] or '')
            if any(ch in t for ch in '"\\\n'):
                f.add('quotes-backslash-newline')
            if any(ord(ch) > 0x7e or ord(ch) < 0x20 for ch in t):
                f.add('non-ascii-or-control')
            if any(0x80 <= ord(ch) <= 0xa0 or ord(ch) == 0xad for ch in t):
                f.add('latin1-nonprintable')
            if any(p['defval'] for p in md['params']):
                f.add('optional-parameters')
    if case['index_fault'] != 'none':
        f.add('index-' + case['index_fault'])
    return f


SPEC = Spec(
    pid='C17',
    strategy=lambda tier: cases(tier),
    check=check,
    describe=lambda c: dict(c, interface=interface_text(c)),
    from_replay=lambda o: {k: v for k, v in o.items() if k != 'interface'},
    key=lambda c: repr(c),
    features=features,
    nontrivial=lambda c, f: bool(f & {'non-ascii-or-control', 'quotes-backslash-newline',
                                      'overloads-identical-parameter-names'}),
    rule="Hypothesis draws 1-3 classes with 1-5 (static) methods (overloads with equal and "
         "different parameter names) and a Doxygen XML tree: per class a compound + file with "
         "memberdefs for the methods (optionally with extra defaulted parameters, defname "
         "instead of declname, no brief), decoy members, in drawn order; faults: class absent "
         "from index, file missing / truncated / empty, index missing / truncated; texts over "
         "all XML-1.0 Unicode biased to quotes, backslash, newline/CR/tab, C1 controls, NBSP, "
         "soft hyphen, astral characters, '??/', '%', '{}', hex digits after a control "
         "character, trailing backslash. Oracle: selection via unique markers, escaping via an "
         "independent C++ literal decoder (greedy \\x) against the extracted text (for every 4th "
         "case the literals are also compiled with g++ -std=c++17 and the bytes of the "
         "resulting arrays must equal the decoder's), content (the line documenting every "
         "parameter the binding has), isolation "
         "(output minus literals == output without XML). Non-trivial: a text with non-ASCII / "
         "control / quote / backslash / newline characters, or overloads with identical "
         "parameter names.",
    budget={'quick': 64, 'thorough': 1500},
    size=lambda c: len(repr(c)),
    sample_fn=lambda c: {'interface': interface_text(c),
                         'docs': [[(m['name'], [p['declname'] for p in m['params']],
                                    (m['marker'] + ' ' + m['brief'])[:60])
                                   for m in k['members']] for k in c['classes']],
                         'faults': [k['fault'] for k in c['classes']] + [c['index_fault']]},
    assumptions=["source and execution character set UTF-8 (g++ default)",
                 "the reference selection rule is the one stated in the property and in "
                 "xml_parser.py's documentation (k-th binding <-> k-th candidate)"],
)
