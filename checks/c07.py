"""C07 - Input is either fully understood or loudly rejected, never half-used.

Domain A: a dialect model rendered to tokens, then 0-3 token-level corruptions.
Oracle: parseString raises (rejected) - or returns a tree whose canonical re-rendering has the
same primitive-token multiset as the comment-stripped input (after the documented
normalisations, applied to both sides) and re-parses to the same tree.
End to end (a drawn fraction of cases): both generators (library API) and both scripts run
against an output location pre-seeded with sentinel files; when the run fails, every byte and
the directory listing are unchanged, and the run terminates.
"""
from __future__ import annotations

import collections
import os
import re
import shutil
import subprocess
import sys

from hypothesis import strategies as st

from vlib import gen as G
from vlib import model as M
from vlib import project as P
from vlib import reader
from vlib import render as R
from vlib import findings, wraps
from vlib.runner import REPO, Failure, Spec

STRAY = ['{', '}', '(', ')', '<', '>', ';', ',', '::', '=', '*', '@', '&', ':', 'const',
         'class', 'template', 'static', 'virtual', 'typedef', 'namespace', 'enum', 'operator',
         'pair', '#include', 'x', '0', '"', "'", '__', '/*', '//', '~', '[', ']', '.', '!']
MISSPELL = {'class': ['clas', 'Class', 'classs'], 'namespace': ['namespce', 'Namespace'],
            'template': ['tempalte', 'templat'], 'const': ['cosnt', 'Const'],
            'static': ['statik'], 'virtual': ['virtul', 'Virtual'], 'typedef': ['typdef'],
            'enum': ['enumm', 'Enum'], 'operator': ['opertor'], 'pair': ['pare'],
            '#include': ['#inclde', '# include', 'include'], 'enum class': ['enum clas'],
            'unsigned char': ['unsigned  char', 'unsignedchar']}


@st.composite
def mutations(draw, toks):
    toks = list(toks)
    log = []
    n = draw(st.sampled_from([1, 2, 1, 3, 2, 1, 0]))
    for _ in range(n):
        if not toks:
            break
        kind = draw(st.sampled_from(['stray', 'swap', 'delete', 'drop-bracket', 'misspell',
                                     'duplicate', 'truncate', 'cut-token', 'stray',
                                     'open-comment', 'line-comment', 'glue']))
        i = draw(st.integers(0, len(toks) - 1))
        if kind == 'delete':
            log.append(('delete', i, toks[i]))
            del toks[i]
        elif kind == 'duplicate':
            log.append(('duplicate', i, toks[i]))
            toks.insert(i, toks[i])
        elif kind == 'swap' and i + 1 < len(toks):
            log.append(('swap', i, toks[i], toks[i + 1]))
            toks[i], toks[i + 1] = toks[i + 1], toks[i]
        elif kind == 'truncate':
            log.append(('truncate', i))
            del toks[i:]
        elif kind == 'cut-token' and len(toks[i]) > 1:
            k = draw(st.integers(1, len(toks[i]) - 1))
            log.append(('cut-token', i, toks[i][:k]))
            toks[i] = toks[i][:k]
            del toks[i + 1:]
        elif kind == 'stray':
            own = sorted(set(toks))
            t = draw(st.sampled_from(STRAY) | st.sampled_from(own))
            log.append(('stray', i, t))
            toks.insert(i, t)
        elif kind == 'drop-bracket':
            idx = [j for j, t in enumerate(toks) if t in '(){}<>' and len(t) == 1]
            if idx:
                j = draw(st.sampled_from(idx))
                log.append(('drop-bracket', j, toks[j]))
                del toks[j]
        elif kind == 'misspell':
            idx = [j for j, t in enumerate(toks) if t in MISSPELL]
            if idx:
                j = draw(st.sampled_from(idx))
                new = draw(st.sampled_from(MISSPELL[toks[j]]))
                log.append(('misspell', j, toks[j], new))
                toks[j] = new
        elif kind == 'glue':
            # a separator is lost: two words become one (`enumKind`, `constdouble`, `classA`)
            idx = [j for j in range(len(toks) - 1)
                   if re.match(r'.*\w$', toks[j], re.S) and re.match(r'\w', toks[j + 1])]
            if idx:
                j = draw(st.sampled_from(idx))
                log.append(('glue', j, toks[j], toks[j + 1]))
                toks[j:j + 2] = [toks[j] + toks[j + 1]]
        elif kind == 'open-comment':
            log.append(('open-comment', i))
            toks.insert(i, '/* unterminated')
        elif kind == 'line-comment':
            log.append(('line-comment', i))
            toks.insert(i, '// cut')
    return toks, log


@st.composite
def invalidate(draw, m):
    """Model-level corruption that violates a validation rule the parser states explicitly
    (constructor name == class name; unary operators are + and - only; operators take at most
    one argument; binary operators other than () [] have argument type == return type).  The
    result cannot be read as any other member, so it must be rejected."""
    from dataclasses import replace
    classes = [(p, it) for p, it in M.iter_items(m) if isinstance(it, M.Class)]
    if not classes:
        return None
    path, cls = draw(st.sampled_from(classes))
    kind = draw(st.sampled_from(['ctor-name', 'ctor-name', 'unary-op', 'op-arity', 'op-mixed']))
    self_t = M.Type((), cls.name)
    if kind == 'ctor-name':
        ctors = [i for i, x in enumerate(cls.members) if isinstance(x, M.Ctor)]
        bad = draw(st.sampled_from([cls.name + 'x', cls.name[:-1] or 'Q', cls.name.lower()
                                    if cls.name.lower() != cls.name else cls.name + '_',
                                    'Other']).filter(lambda n: n != cls.name and
                                                     n not in M.RESERVED))
        if ctors and draw(st.booleans()):
            i = draw(st.sampled_from(ctors))
            members = list(cls.members)
            members[i] = replace(members[i], name=bad)
        else:  # add a misspelled one next to the correct ones
            members = list(cls.members)
            members.insert(draw(st.integers(0, len(members))),
                           M.Ctor(bad, (M.Arg(M.Type((), 'double'), 'x'),)))
        new = replace(cls, members=tuple(members))
    else:
        if kind == 'unary-op':
            op = M.Operator(M.Ret(self_t), draw(st.sampled_from(['*', '/', '==', '<', '[]',
                                                                 '()', '+='])), ())
        elif kind == 'op-arity':
            op = M.Operator(M.Ret(self_t), draw(st.sampled_from(['+', '()', '=='])),
                            (M.Arg(self_t, 'a'), M.Arg(self_t, 'b')))
        else:
            op = M.Operator(M.Ret(self_t), draw(st.sampled_from(['+', '*', '==', '<='])),
                            (M.Arg(M.Type((), 'double'), 'a'),))
        members = list(cls.members)
        members.insert(draw(st.integers(0, len(members))), op)
        new = replace(cls, members=tuple(members))
    done = [False]

    def fn(it):
        if it is cls and not done[0]:
            done[0] = True
            return new
        return it
    return M.map_items(m, fn), kind


@st.composite
def bad_typedef(draw, m):
    """A well-formed file whose typedef violates a validation rule the instantiator states
    explicitly ("Typenames and instantiations mismatch!", "Cannot find class ... in module!"):
    the parser accepts it, both generators and all scripts must fail."""
    tpls = [(p, it) for p, it in M.iter_items(m)
            if isinstance(it, M.Class) and it.template is not None]
    extra = []
    if tpls and draw(st.booleans()):
        path, cls = draw(st.sampled_from(tpls))
        n = len(cls.template.params)
    else:
        path, n = (), draw(st.integers(1, 2))
        cls = M.Class('ZzTpl', (), M.Template(tuple(M.TParam(x) for x in ('T', 'U')[:n])))
        extra.append(cls)
    kind = draw(st.sampled_from(['typedef-surplus', 'typedef-surplus', 'typedef-short',
                                 'typedef-unknown']))
    args = ['double', 'int', 'bool', 'size_t', 'char']
    name = cls.name
    if kind == 'typedef-short' and n >= 2:
        k = draw(st.integers(1, n - 1))
    elif kind == 'typedef-unknown':
        k, name = n, cls.name + 'NoSuch'
    else:
        kind, k = 'typedef-surplus', n + draw(st.integers(1, 2))
    td = M.Typedef(M.Type(tuple(path), name, tuple(M.Type((), a) for a in args[:k])), 'ZzBad')
    return M.Module(tuple(m.content) + tuple(extra) + (td,)), kind


@st.composite
def cases(draw, tier):
    if draw(st.integers(0, 15)) == 5:
        m0 = draw(G.modules(G.SEMANTIC))
        m2, kind = draw(bad_typedef(m0))
        return {'text': R.text(m2), 'orig': R.text(m0), 'log': [('invalid-at-generation', kind)],
                'e2e': True, 'scripts': draw(st.integers(0, 3)) == 0, 'must_fail': True}
    prof = draw(st.sampled_from([G.DIALECT, G.SEMANTIC]))
    m = draw(G.modules(prof))
    toks = R.module_toks(m)
    if draw(st.integers(0, 5)) == 3:
        inv = draw(invalidate(m))
        if inv is not None:
            m2, kind = inv
            e2e = draw(st.integers(0, 9)) == 4
            return {'text': R.text(m2), 'orig': R.canonical(toks), 'log': [('invalid', kind)],
                    'e2e': e2e, 'scripts': False, 'must_reject': True}
    mtoks, log = draw(mutations(toks))
    e2e = draw(st.integers(0, 39 if tier == 'quick' else 19)) == 7
    scripts = e2e and draw(st.booleans())
    return {'text': R.canonical(mtoks), 'orig': R.canonical(toks), 'log': log,
            'e2e': e2e, 'scripts': scripts}


def prim(text):
    """primitive token multiset of comment-stripped text, after the normalisations that the
    tree cannot observe (applied identically to both sides)."""
    toks = [t[1] for t in reader.lex(text)]
    out = []
    i = 0
    while i < len(toks):
        t = toks[i]
        if t == 'std' and toks[i + 1:i + 4] == ['::', 'pair', '<']:
            i += 2
            continue
        if t == 'enum' and i + 1 < len(toks) and toks[i + 1] in ('class', 'struct'):
            out.append('enum')
            i += 2
            continue
        out.append(t)
        i += 1
    return collections.Counter(out)


ACCEPTABLE_ERRORS = ('ParseException', 'ParseSyntaxException', 'ParseFatalException',
                     'ValueError', 'AssertionError')


def _strip_inst_qualifiers(m):
    """F-17 normaliser: drop qualifiers inside instantiation lists and typedef'd types."""
    from dataclasses import replace

    def bare(t):
        return M.Type(t.ns, t.name, tuple(bare(a) for a in t.targs))

    def tpl(tp):
        if tp is None:
            return None
        return M.Template(tuple(replace(p, insts=tuple(bare(i) for i in p.insts))
                                for p in tp.params))

    def fn(it):
        if isinstance(it, M.Typedef):
            return replace(it, type=bare(it.type))
        if isinstance(it, M.Func):
            return replace(it, template=tpl(it.template))
        if isinstance(it, M.Class):
            return replace(it, template=tpl(it.template), members=tuple(
                replace(x, template=tpl(x.template)) if getattr(x, 'template', None) else x
                for x in it.members))
        return it
    return M.map_items(m, fn)


def check_parse(text):
    """-> (verdict, failures, note)"""
    try:
        tree = P.parse(text)
    except RecursionError:
        return 'rejected', [], 'RecursionError'
    except Exception as e:
        name = type(e).__name__
        return 'rejected', [], None if name in ACCEPTABLE_ERRORS else name
    try:
        got, problems = P.project(tree)
    except P.MalformedTree as e:
        return 'accepted', [Failure('C07.tree-malformed', 'accepted, but the tree cannot be '
                                    'read back: %s' % str(e)[:200])], None
    text2 = R.text(got)
    a, b = prim(text), prim(text2)
    out = []
    if a != b:
        explained = False
        if findings.is_open('F-17-inst-qualifiers'):
            try:
                rm = _strip_inst_qualifiers(reader.read(text))
                explained = prim(R.text(rm)) == b
            except Exception:
                explained = False
        if explained:
            return 'accepted-known-F17', [], None
        missing = a - b
        extra = b - a
        out.append(Failure('C07.token-unaccounted',
                           'accepted, but input tokens %s are not in the tree%s' % (
                               dict(missing), (' and the tree has %s' % dict(extra))
                               if extra else '')))
    try:
        again, _ = P.project(P.parse(text2))
        if again != got:
            out.append(Failure('C07.reparse', 're-rendering of the accepted tree parses to a '
                               'different tree'))
    except Exception as e:
        out.append(Failure('C07.reparse', 're-rendering of the accepted tree is rejected: %s' %
                           type(e).__name__))
    return 'accepted', out, None


def _snapshot(root):
    snap = {}
    for dp, dn, fn in os.walk(root):
        for d in dn:
            snap[os.path.relpath(os.path.join(dp, d), root) + '/'] = None
        for f in fn:
            p = os.path.join(dp, f)
            with open(p, 'rb') as fh:
                snap[os.path.relpath(p, root)] = fh.read()
    return snap


def check_e2e(text, scripts, must_fail=False):
    """Run generators against pre-seeded output; a failing run must leave everything as it
    was."""
    out = []
    d = wraps.scratch_dir('c07')
    cwd = os.getcwd()
    try:
        work = os.path.join(d, 'work')
        os.makedirs(os.path.join(work, 'out', '+pkg'))
        src = os.path.join(work, 'sub.i')
        with open(src, 'w') as f:
            f.write(text)
        with open(os.path.join(work, 'tpl'), 'w') as f:
            f.write(wraps.PYBIND_TPL)
        for name, content in (('out.cpp', 'PREVIOUS OUTPUT\n'), ('sub.cpp', 'PREVIOUS SUB\n'),
                              ('out/mod_wrapper.cpp', 'PREVIOUS MEX\n'),
                              ('out/A.m', 'PREVIOUS A\n'), ('out/+pkg/B.m', 'PREVIOUS B\n'),
                              ('sentinel.txt', 'S\n')):
            with open(os.path.join(work, name), 'w') as f:
                f.write(content)
        before = _snapshot(work)
        os.chdir(work)

        def attempt(label, fn):
            try:
                fn()
                failed = False
            except SystemExit as e:
                failed = e.code not in (0, None)
            except BaseException:
                failed = True
            after = _snapshot(work)
            if must_fail and not failed:
                out.append(Failure('C07.invalid-accepted-by-generator',
                                   '%s succeeded on input violating a validation rule' % label))
            if failed and after != before:
                changed = sorted(k for k in set(before) | set(after)
                                 if before.get(k) != after.get(k))
                out.append(Failure('C07.output-touched-on-failure',
                                   '%s failed but created/modified %s' % (label, changed[:5])))
            # restore the pre-seeded state for the next attempt
            if after != before:
                for k in set(after) - set(before):
                    p = os.path.join(work, k.rstrip('/'))
                    if os.path.isdir(p):
                        shutil.rmtree(p, ignore_errors=True)
                    elif os.path.exists(p):
                        os.remove(p)
                for k, v in before.items():
                    p = os.path.join(work, k.rstrip('/'))
                    if v is None:
                        os.makedirs(p, exist_ok=True)
                    else:
                        with open(p, 'wb') as fh:
                            fh.write(v)
            return failed

        w = wraps.pybind_wrapper()
        attempt('PybindWrapper.wrap', lambda: w.wrap([src], os.path.join(work, 'out.cpp')))
        w2 = wraps.pybind_wrapper()
        attempt('PybindWrapper.wrap_submodule', lambda: w2.wrap_submodule(src))

        def mat():
            from gtwrap.matlab_wrapper import MatlabWrapper
            MatlabWrapper(module_name='mod', top_module_namespace=[''],
                          ignore_classes=['']).wrap([src], path=os.path.join(work, 'out'))
        attempt('MatlabWrapper.wrap', mat)
        if scripts:
            env = dict(os.environ, PYTHONPATH=REPO, PYTHONHASHSEED='0')

            def script(args):
                def run():
                    try:
                        r = subprocess.run([sys.executable] + args, cwd=work, env=env,
                                           capture_output=True, timeout=300)
                    except subprocess.TimeoutExpired:
                        raise RuntimeError('INCONCLUSIVE: script did not finish in 300 s')
                    if r.returncode != 0:
                        raise SystemExit(r.returncode)
                return run
            py = os.path.join(REPO, 'scripts', 'pybind_wrap.py')
            attempt('scripts/pybind_wrap.py', script(
                [py, '--src', src, '--module_name', 'mod', '--out', 'out.cpp',
                 '--template', 'tpl', '--ignore', 'x::Y']))
            attempt('scripts/pybind_wrap.py --is_submodule', script(
                [py, '--src', src, '--module_name', 'mod', '--out', 'out.cpp',
                 '--template', 'tpl', '--ignore', 'x::Y', '--is_submodule']))
            attempt('scripts/matlab_wrap.py', script(
                [os.path.join(REPO, 'scripts', 'matlab_wrap.py'), '--src', src,
                 '--module_name', 'mod', '--out', 'out', '--ignore', 'x::Y']))
    finally:
        os.chdir(cwd)
        shutil.rmtree(d, ignore_errors=True)
    return out


def check(case):
    verdict, fails, note = check_parse(case['text'])
    case['_verdict'] = verdict
    case['_note'] = note
    if case.get('must_reject') and verdict != 'rejected':
        fails = fails + [Failure('C07.invalid-accepted', 'input violating validation rule %s is '
                                 'accepted' % (case['log'],))]
    if case.get('e2e'):
        fails = fails + check_e2e(case['text'], case.get('scripts'), case.get('must_fail'))
    return fails


def features(case):
    f = set()
    if '_verdict' not in case:
        v, _, note = check_parse(case['text'])
    else:
        v, note = case['_verdict'], case.get('_note')
    mutated = case['text'] != case['orig']
    f.add('mutated' if mutated else 'unmutated')
    f.add(v + ('-after-mutation' if mutated else ''))
    for entry in case['log']:
        f.add('mut-' + entry[0])
    if case.get('e2e'):
        f.add('e2e')
        if case.get('scripts'):
            f.add('e2e-scripts')
    if note:
        f.add('unusual-error-' + note)
    return f


def from_replay(o):
    if 'orig' not in o:
        o = dict(o, orig=o['text'], log=[], e2e=o.get('e2e', False), scripts=o.get('scripts',
                                                                                  False))
    o = {k: v for k, v in o.items() if not k.startswith('_')}
    return o


def fixtures():
    import glob
    out = []
    for f in sorted(glob.glob(os.path.join(REPO, 'tests', 'fixtures', '*.i'))):
        t = open(f).read()
        out.append({'text': t, 'orig': t, 'log': [], 'e2e': False, 'scripts': False})
        # truncations of every fixture at a few fixed points
        for frac in (0.25, 0.5, 0.9):
            cut = t[:int(len(t) * frac)]
            out.append({'text': cut, 'orig': t, 'log': [('truncate-chars', len(cut))],
                        'e2e': False, 'scripts': False})
    for t in ("class Pose { Pose(); Pse(double x, double y); };\n",
              "class A { A operator*() const; };\n",
              "class A { A operator+(const A& a, const A& b) const; };\n",
              "class A { A operator+(double a) const; };\n"):
        out.append({'text': t, 'orig': t, 'log': [('invalid', 'fixed-example')], 'e2e': False,
                    'scripts': False, 'must_reject': True})
    for t in ("template<T, U> class P { T a; };\ntypedef P<double, int, bool> P3;\n",
              "namespace n { template<T, U> class P { T a; }; }\ntypedef n::P<double> P1;\n",
              "template<T> class P { T a; };\ntypedef Q<double> Qd;\n"):
        out.append({'text': t, 'orig': t, 'log': [('invalid-at-generation', 'fixed-example')],
                    'e2e': True, 'scripts': True, 'must_fail': True})
    bad = "class A { A(); void f(int x) };\n"
    out.append({'text': bad, 'orig': bad, 'log': [], 'e2e': True, 'scripts': True})
    return out


SPEC = Spec(
    pid='C07',
    strategy=lambda tier: cases(tier),
    check=check,
    describe=lambda c: {k: v for k, v in c.items() if not k.startswith('_')},
    from_replay=from_replay,
    key=lambda c: c['text'] + ('#e2e' if c.get('e2e') else ''),
    features=features,
    nontrivial=lambda c, f: 'mutated' in f,
    rule="Hypothesis renders a model (dialect or semantic profile) to tokens and applies 0-3 "
         "token-level corruptions (delete, duplicate, swap, truncate at a token, cut inside a "
         "token, stray token from the file's own vocabulary or punctuation/keywords, drop one "
         "bracket, misspell a keyword, unterminated '/*', '//' in front of code), or (1 in 6) a "
         "model-level violation of an explicit validation rule (misspelled constructor, invalid "
         "unary operator, two-argument operator, mixed-type operator) which must be rejected, "
         "or (1 in 16) a parseable file whose typedef has too many / too few template arguments "
         "or names no declared template, on which every generator entry point must fail. "
         "Oracle: "
         "parseString raises, or the accepted tree re-rendered has the same primitive-token "
         "multiset as the comment-stripped input and re-parses to itself. 1 in 40 cases (1 in 20 "
         "thorough) also run PybindWrapper.wrap / wrap_submodule / MatlabWrapper.wrap (and, for "
         "half of those, the three command-line invocations as subprocesses) against a work "
         "directory pre-seeded with earlier outputs and sentinels: a failing run must leave "
         "every byte and the listing unchanged. Non-trivial: the corruption changed the text "
         "(feature histogram splits rejected / accepted-as-another-valid-file). Distinct = "
         "distinct text.",
    budget={'quick': 64, 'thorough': 1500},
    size=lambda c: len(c['text']),
    fixtures=fixtures,
    sample_fn=lambda c: {'text': c['text'][:800], 'mutations': [list(map(str, e)) for e in
                                                              c['log']]},
    assumptions=["'mutation => reject' is NOT asserted: ~7% of single-token corruptions yield "
                 "another valid file", "termination: subprocesses get 300 s; a timeout is a "
                 "harness error (inconclusive), not a violation"],
)
