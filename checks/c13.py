"""C13 - Instantiations are independent of each other and of parameter spelling.

Metamorphic: (a) replace an instantiation list by a sublist / permutation -> every instantiation
present on both sides is identical (projection + its pybind block); (b) instantiate k fresh
parses in one process -> identical; (c) alpha-rename every template parameter to an unused
identifier -> instantiated tree, pybind output and MATLAB toolbox byte-identical.
"""
from __future__ import annotations

import collections
from dataclasses import replace

from hypothesis import strategies as st

from vlib import gen as G
from vlib import instproj, wraps
from vlib import model as M
from vlib import render as R
from vlib.runner import Failure, Spec
from checks import instcommon as IC


def _templates(m):
    """Flat list of (where, node) for every templated item / member whose lists are complete."""
    out = []
    for path, it in M.iter_items(m):
        if isinstance(it, (M.Class, M.Func)) and it.template is not None and \
                all(p.insts for p in it.template.params):
            out.append(it.template)
        if isinstance(it, M.Class):
            for x in it.members:
                t = getattr(x, 'template', None)
                if t is not None:
                    out.append(t)
    return out


def _replace_nth_template(m, n, new_tpl):
    cnt = [0]

    def fn(it):
        if isinstance(it, (M.Class, M.Func)) and it.template is not None and \
                all(p.insts for p in it.template.params):
            if cnt[0] == n:
                it = replace(it, template=new_tpl)
            cnt[0] += 1
        if isinstance(it, M.Class):
            ms = []
            for x in it.members:
                if getattr(x, 'template', None) is not None:
                    if cnt[0] == n:
                        x = replace(x, template=new_tpl)
                    cnt[0] += 1
                ms.append(x)
            it = replace(it, members=tuple(ms))
        return it

    return M.map_items(m, fn)


@st.composite
def cases(draw, tier):
    m = draw(G.modules(IC.profile()).filter(
        lambda x: bool(_templates(x)) or any(isinstance(i, M.Typedef) for _, i in M.iter_items(x))))
    tpls = _templates(m)
    multi = [i for i, t in enumerate(tpls) if any(len(p.insts) >= 2 for p in t.params)]
    kinds = []
    if multi:
        kinds += ['sublist'] * 5
    tds = [it for _, it in M.iter_items(m) if isinstance(it, M.Typedef)]
    if len(tds) >= 2:
        kinds += ['drop-typedef'] * 3
    if tpls:
        kinds += ['rename'] * 3
    kinds += ['reparse']
    kind = draw(st.sampled_from(kinds))
    if kind == 'sublist':
        n = draw(st.sampled_from(multi))
        t = tpls[n]
        params = []
        for p in t.params:
            perm = draw(st.permutations(list(p.insts)))
            k = draw(st.integers(1, len(perm)))
            params.append(replace(p, insts=tuple(perm[:k])))
        m2 = _replace_nth_template(m, n, M.Template(tuple(params)))
        return (m, ('sublist', n), m2)
    if kind == 'drop-typedef':
        victim = tds[draw(st.integers(0, len(tds) - 1))]
        m2 = M.map_items(m, lambda it: None if it is victim else it)
        return (m, ('sublist', 'drop typedef ' + victim.name), m2)
    if kind == 'rename':
        used = set(M.identifiers(m))
        m2 = m
        renames = []

        def fresh(old):
            new = draw(G.tparam_name(used) | st.sampled_from(
                ['Z9', 'LONGPARAMETERNAME', 'q', 'tT']).filter(lambda s: s not in used))
            used.add(new)
            renames.append((old, new))
            return new

        def fn(it):
            # class-/function-level parameters scope over the whole declaration,
            # member-level parameters over their own member only
            if getattr(it, 'template', None) is not None:
                for old in it.template.names():
                    it = M.rename_param(it, old, fresh(old), members=False)
            if isinstance(it, M.Class):
                ms = []
                for x in it.members:
                    if getattr(x, 'template', None) is not None:
                        for old in x.template.names():
                            x = M.rename_param(x, old, fresh(old))
                    ms.append(x)
                it = replace(it, members=tuple(ms))
            return it

        m2 = M.map_items(m, fn)
        return (m, ('rename', renames), m2)
    return (m, ('reparse', draw(st.integers(2, 3))), m)


def _index(items, path=()):
    out = {}
    for it in items:
        if it['k'] == 'ns':
            out.update(_index(it['items'], path + (it['name'],)))
        elif it['k'] in ('class', 'decl'):
            out.setdefault((path, it['k'], it['name'], it['cpp']), it)
        elif it['k'] == 'func':
            # overloads of one function template share name and spelling: keep all of them
            out.setdefault((path, it['k'], it['name'], it['cpp']), []).append(it)
    return out


def _sub_multiset(sub, full):
    import json
    a = collections.Counter(json.dumps(x, sort_keys=True) for x in sub)
    b = collections.Counter(json.dumps(x, sort_keys=True) for x in full)
    return not (a - b)


def _pybind_blocks(tree):
    """{(kind, name, cpp): generated pybind text} for classes and functions of a tree."""
    import gtwrap.interface_parser as parser
    import gtwrap.template_instantiator as inst
    w = wraps.pybind_wrapper()
    out = {}

    def walk(ns):
        for it in ns.content:
            if isinstance(it, parser.Namespace):
                walk(it)
            elif isinstance(it, inst.InstantiatedClass):
                out[('class', it.name, it.to_cpp().replace(' ', ''))] = \
                    w.wrap_instantiated_class(it) + w.wrap_enums(it.enums, it)
            elif isinstance(it, inst.InstantiatedGlobalFunction):
                out.setdefault(('func', it.name, it.to_cpp().replace(' ', '')), []).append(
                    w.wrap_functions([it], '::'.join(it.parent.full_namespaces()[1:])))
    walk(tree)
    return out


def _contained(sub, full):
    """Every member of the class instantiated from the sublist occurs, identically, in the class
    instantiated from the full list (as multisets; the rest of the class is equal)."""
    import json
    for k in sub:
        if k in ('ctors', 'methods', 'statics'):
            a = collections.Counter(json.dumps(x, sort_keys=True) for x in sub[k])
            b = collections.Counter(json.dumps(x, sort_keys=True) for x in full[k])
            if a - b:
                return False
        elif sub[k] != full.get(k):
            return False
    return True


def check(case):
    m, (kind, arg), m2 = case
    text, text2 = R.text(m), R.text(m2)
    try:
        tree = instproj.instantiate(text)
    except Exception as e:
        if kind == 'sublist':
            # requesting fewer instantiations must not turn a failing input into a working one
            try:
                instproj.instantiate(text2)
            except Exception:
                return []  # C08 reports instantiation failures
            return [Failure('C13.raises-differs', 'the full request raises %s but the reduced '
                            'request (%s) is instantiated' % (type(e).__name__, arg))]
        return []
    base = instproj.p_scope(tree)
    out = []
    if kind == 'reparse':
        first_py = wraps.pybind_text(text)
        for i in range(arg):
            again = instproj.p_scope(instproj.instantiate(text))
            if again != base:
                out.append(Failure('C13.reparse', 'instantiating a fresh parse #%d of the same '
                                   'text gave a different tree' % (i + 2)))
            if wraps.pybind_text(text) != first_py:
                out.append(Failure('C13.reparse-output', 'pybind output changed on run %d' %
                                   (i + 2)))
        return out
    try:
        tree2 = instproj.instantiate(text2)
    except Exception as e:
        return [Failure('C13.transformed-raises', '%s: %s' % (type(e).__name__, str(e)[:200]))]
    other = instproj.p_scope(tree2)
    if kind == 'rename':
        if other != base:
            from vlib.instcmp import compare
            out.append(Failure('C13.rename-tree', 'renaming %s changed the instantiated tree' %
                               (arg,)))
        py1, py2 = wraps.pybind_text(text), wraps.pybind_text(text2)
        if py1 != py2:
            out.append(Failure('C13.rename-pybind', 'renaming %s changed the pybind output: %s'
                               % (arg, _first_diff(py1, py2))))
        try:
            mt1 = wraps.matlab_tree([text])
        except Exception:
            mt1 = None
        if mt1 is not None:
            try:
                mt2 = wraps.matlab_tree([text2])
            except Exception as e:
                out.append(Failure('C13.rename-matlab', 'renamed input raises %s' %
                                   type(e).__name__))
                mt2 = mt1
            if mt1 != mt2:
                bad = sorted(k for k in set(mt1) | set(mt2) if mt1.get(k) != mt2.get(k))
                out.append(Failure('C13.rename-matlab', 'renaming %s changed MATLAB files %s' %
                                   (arg, bad[:3])))
        return out
    # sublist / permutation
    i1, i2 = _index(base), _index(other)
    b1, b2 = _pybind_blocks(tree), _pybind_blocks(tree2)
    for key, it2 in i2.items():
        it1 = i1.get(key)
        if it1 is None:
            out.append(Failure('C13.sublist-missing', '%s %s exists with the sublist but not '
                               'with the full list' % (key[1], key[2])))
            continue
        bk = (key[1], key[2], key[3])
        if key[1] == 'func':
            if not _sub_multiset(it2, it1):
                out.append(Failure('C13.sublist-differs', 'func %s differs between full list '
                                   'and sublist' % key[2]))
            if not _sub_multiset(b2.get(bk) or [], b1.get(bk) or []):
                out.append(Failure('C13.sublist-pybind', 'pybind binding of %s differs' % key[2]))
            continue
        same = _contained(it2, it1) if it1['k'] == 'class' else it1 == it2
        if not same:
            out.append(Failure('C13.sublist-differs', '%s %s differs between full list and '
                               'sublist' % (key[1], key[2])))
        if it1['k'] == 'class' and it1 == it2 and b1.get(bk) != b2.get(bk):
            out.append(Failure('C13.sublist-pybind', 'pybind block of %s differs: %s' % (
                key[2], _first_diff(b1.get(bk) or '', b2.get(bk) or ''))))
    return out


def _first_diff(a, b):
    la, lb = a.splitlines(), b.splitlines()
    for i, (x, y) in enumerate(zip(la, lb)):
        if x != y:
            return 'line %d: %r vs %r' % (i + 1, x[:150], y[:150])
    return 'length %d vs %d lines' % (len(la), len(lb))


def features(case):
    m, (kind, arg), m2 = case
    f = IC.features((m, None))
    f.add('transform-' + kind)
    if kind == 'rename' and any(len(o) != len(n) or o.isupper() != n.isupper() for o, n in arg):
        f.add('rename-changes-length-or-case')
    if kind == 'sublist':
        f.add('sublist')
        if isinstance(arg, str):
            f.add('drop-typedef')
    return f


SPEC = Spec(
    pid='C13',
    strategy=lambda tier: cases(tier),
    check=check,
    describe=lambda c: {'model': M.to_json(c[0]), 'transform': [c[1][0], c[1][1]],
                        'model2': M.to_json(c[2]), 'text': R.text(c[0]), 'text2': R.text(c[2])},
    from_replay=lambda o: (M.from_json(o['model']),
                           (o['transform'][0], [tuple(x) for x in o['transform'][1]]
                            if o['transform'][0] == 'rename' else o['transform'][1]),
                           M.from_json(o['model2'])),
    key=lambda c: R.text(c[0]) + '\0' + R.text(c[2]) + str(c[1][0]),
    features=features,
    nontrivial=lambda c, f: ('sublist' in f or 'rename-changes-length-or-case' in f) and
    bool(f & {'param-depth-1', 'param-depth-2', 'param-depth-3', 'param-scoped', 'this'}),
    rule="Hypothesis draws a module from the instantiation domain and one transformation: "
         "sublist+permutation of one instantiation list (class-, function- or member-level), "
         "alpha-renaming of every template parameter to an unused identifier (short, long, "
         "other case), or k fresh re-parses. Oracle (metamorphic): every instantiation present "
         "on both sides has identical projection and identical pybind block; renaming leaves "
         "the instantiated tree, the pybind TU and the MATLAB toolbox byte-identical. "
         "Non-trivial: a sublist or a length/case-changing renaming applied to a declaration "
         "whose parameters actually occur in member types. Distinct = distinct (text, "
         "transformed text).",
    budget={'quick': 40, 'thorough': 900},
    size=lambda c: len(R.text(c[0])),
    sample_fn=lambda c: {'transform': [c[1][0], str(c[1][1])], 'text': R.text(c[0])[:1500]},
)
