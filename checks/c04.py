"""C04 - Every Python binding forwards to the declared C++ entity, faithfully.

A module from the executable profile is wrapped (with a module template of ours that includes the
mock library and exposes the trace), compiled with g++, imported in a fresh CPython and driven
by a call plan; the trace the instrumented library recorded and the values Python received are
compared with predictions made from the model alone.
"""
from __future__ import annotations

import itertools
import json
import os
import re
import shutil
import subprocess
import sys
import sysconfig
from dataclasses import replace

from hypothesis import strategies as st

from vlib import cxxmock, gen as G, model as M, pyexec, wraps
from vlib import render as R
from vlib.cxxmock import h32, sig_of
from vlib.runner import REPO, Failure, Spec
from checks import pycommon as PC
from checks import c09

TPL = c09.TPL.replace('#include "vmock.h"', '#include <pybind11/stl.h>\n#include "vmock.h"') \
    .replace('// VERIF-BODY-BEGIN',
             '    m_.def("_trace_take", [](){{ auto v = vtrace::log(); vtrace::log().clear(); '
             'return v; }});\n    m_.def("_live", [](){{ return vtrace::live(); }});\n'
             '// VERIF-BODY-BEGIN')


def profile():
    return replace(c09.profile(), name='executable', executable=True, max_items=5,
                   max_members=6, ns_depth=2, fwd=False, typedefs=False, includes=False,
                   foreign_types=False,
                   tparam_pool=c09.TPARAMS, member_template_odds=3, class_template_odds=2)


# ------------------------------------------------------------------ model helpers

def subst(t: M.Type, env, this: M.Type) -> M.Type:
    if not t.ns and not t.targs and t.name in env:
        c = env[t.name]
        return replace(c, const=t.const, ptr=t.ptr)
    if not t.ns and t.name == 'This' and this is not None:
        return replace(this, const=t.const, ptr=t.ptr)
    return t


def tname(t: M.Type) -> str:
    n = '::'.join(t.ns + (t.name,))
    if n == 'std::string':
        n = 'string'
    if t.targs:
        n += '<' + ','.join(tname(a) for a in t.targs) + '>'
    return n


def key_of(t: M.Type) -> str:
    return tname(replace(t, const=False, ptr=''))


def inst_suffix(args):
    def nm(t):
        return t.name + ''.join(nm(a) for a in t.targs)
    return ''.join(nm(a)[:1].upper() + nm(a)[1:] for a in args)


def overlapping(members):
    """Callables whose arity ranges overlap another of the same name (pybind11 resolves those by
    registration order and implicit conversion - not the generator's business)."""
    bad = set()
    by = {}
    for m in members:
        if isinstance(m, (M.Method, M.Static, M.Ctor, M.Func)):
            n = len(m.args)
            k = sum(1 for a in m.args if a.default is not None)
            by.setdefault(m.name, []).append((n - k, n, m))
    for name, lst in by.items():
        for (a1, b1, m1), (a2, b2, m2) in itertools.combinations(lst, 2):
            if a1 <= b2 and a2 <= b1:
                bad.add(id(m2))
    return bad


@st.composite
def cases(draw, tier):
    m = draw(G.modules(profile()).filter(lambda x: any(
        isinstance(i, (M.Class, M.Func)) for _, i in M.iter_items(x))))
    plan = build_plan(m, draw)
    return {'m': m, 'plan': plan}


def build_plan(m, draw):
    P = pyexec.Planner(m, draw)
    P.collect(m, ())
    steps = []
    sid = [0]

    def add(step, expect):
        sid[0] += 1
        step['id'] = sid[0]
        step['expect'] = expect
        steps.append(step)
        return step

    def args_for(args, env, this, count=None):
        """values for the first `count` parameters -> (encoded, shown, names) or None"""
        enc, shown, names = [], [], []
        for a in args[:count if count is not None else len(args)]:
            t = subst(a.type, env, this)
            v = P.value(key_of(t), t)
            if v is None:
                return None
            enc.append(v[0])
            shown.append(v[1])
            names.append(a.name)
        return enc, shown, names

    def default_shown(args, env, this, frm):
        out = []
        for a in args[frm:]:
            t = subst(a.type, env, this)
            out.append(pyexec.shown_default(t, a.default, P.enum_values))
        return out

    def calls(kind, target, obj, name, decl_args, env, this, entity, self_ref, result,
              store_cls=None):
        """positional / fewer-defaults / keyword variants of one binding"""
        n = len(decl_args)
        k = 0
        while k < n and decl_args[n - 1 - k].default is not None:
            k += 1
        variants = [('positional', n)] + [('omit-%d' % j, n - j) for j in range(1, k + 1)]
        if n >= 1:
            variants.append(('keywords', n))
        for label, cnt in variants:
            got = args_for(decl_args, env, this, cnt)
            if got is None:
                continue
            enc, shown, names = got
            try:
                shown_all = shown + default_shown(decl_args, env, this, cnt)
            except KeyError:
                continue
            step = {'kind': kind, 'variant': label}
            if kind == 'call':
                step['target'] = target
            else:
                step['obj'] = obj
                step['name'] = name
            if label == 'keywords':
                order = draw(st.permutations(list(range(cnt))))
                step['kwargs'] = {names[i]: enc[i] for i in order}
                step['args'] = []
            else:
                step['args'] = enc
            exp = {'trace': [{'entity': entity, 'sig': sig_of(decl_args), 'this': self_ref,
                              'args': shown_all}], 'result': result}
            if store_cls:
                P.nvar += 1
                var = 'o%d' % P.nvar
                step['store'] = var
                exp['trace'][0]['this'] = '{%s}' % var
                add(step, exp)
                P.pool.setdefault(store_cls, []).append(var)
            else:
                add(step, exp)

    def member_envs(tpl):
        if tpl is None:
            return [({}, [])]
        names = tpl.names()
        return [(dict(zip(names, combo)), list(combo))
                for combo in itertools.product(*[p.insts for p in tpl.params])]

    def do_scope(scope, path, second_pass):
        funcs_bad = overlapping([it for it in scope.content if isinstance(it, M.Func)])
        for it in scope.content:
            if isinstance(it, M.Namespace):
                do_scope(it, path + (it.name,), second_pass)
            elif isinstance(it, M.Class):
                do_class(it, path, second_pass)
            elif isinstance(it, M.Func) and second_pass and id(it) not in funcs_bad:
                for env, targs in member_envs(it.template):
                    if it.template is not None and not all(p.insts for p in it.template.params):
                        continue
                    pn = it.name + inst_suffix(targs)
                    if pn in ('print',) or pn in __import__('keyword').kwlist:
                        pn += '_'
                    ent = '::'.join(path + (it.name,))
                    if targs:
                        ent += '<' + ','.join(tname(a) for a in targs) + '>'
                    rt = replace(it.ret, t1=subst(it.ret.t1, env, None),
                                 t2=subst(it.ret.t2, env, None) if it.ret.t2 else None)
                    calls('call', list(path) + [pn], None, None, it.args, env, None, ent, '-',
                          P.result('::'.join(path + (it.name,)), None, rt))
            elif isinstance(it, M.Var) and second_pass:
                add({'kind': 'getvar', 'target': list(path) + [it.name]},
                    {'trace': [], 'result': var_value(it, path)})
            elif isinstance(it, M.Enum) and second_pass:
                for i, n in enumerate(it.enumerators):
                    add({'kind': 'enumint', 'target': list(path) + [it.name, n]},
                        {'trace': [], 'result': {'t': 'int', 'v': 10 * i + 3}})

    def var_value(v, path):
        t = v.type
        if v.default is not None:
            try:
                s = pyexec.shown_default(t, v.default, P.enum_values)
            except KeyError:
                return {'t': 'any'}
            return {'t': 'shown', 'v': s}
        r = P.result('::'.join(path + (v.name,)), None, M.Ret(replace(t, const=False, ptr='')))
        return r

    def do_class(c, path, second_pass):
        if c.template is not None and not all(p.insts for p in c.template.params):
            return
        bad = overlapping(c.members)
        for cenv, cargs in member_envs(c.template):
            pyn = c.name + inst_suffix(cargs)
            qual = '::'.join(path + (c.name,))
            prefix = qual + ('<' + ','.join(tname(a) for a in cargs) + '>' if cargs else '')
            this = M.Type(path, c.name, tuple(cargs))
            ckey = key_of(this)
            pypath = list(path) + [pyn]
            if not second_pass:
                # constructors first, so that later calls find instances of every class
                for mem in c.members:
                    if isinstance(mem, M.Ctor) and id(mem) not in bad:
                        # instantiations of a constructor template are overloads of equal arity:
                        # pybind11 reaches the first registered one that converts
                        for menv, margs in member_envs(mem.template)[:1]:
                            env = dict(cenv, **menv)
                            ent = prefix + '::' + c.name
                            if margs:
                                ent += '<' + ','.join(tname(a) for a in margs) + '>'
                            calls('call', pypath, None, None, mem.args, env, this, ent, None,
                                  {'t': 'instance', 'cls': pyn}, store_cls=ckey)
                continue
            if c.parent is not None and key_of(c.parent) in P.classes:
                add({'kind': 'issubclass', 'target': pypath,
                     'base': P.classes[key_of(c.parent)]},
                    {'trace': [], 'result': {'t': 'bool', 'v': True}})
            insts = P.pool.get(ckey, [])
            for mem in c.members:
                if id(mem) in bad:
                    continue
                if isinstance(mem, M.Static):
                    for menv, margs in member_envs(mem.template):
                        env = dict(cenv, **menv)
                        pn = pyexec.pyname(mem.name + inst_suffix(margs))
                        if mem.template is None and mem.name in (
                                'svg', 'png', 'jpeg', 'html', 'javascript', 'markdown', 'latex'):
                            pn = '_repr_%s_' % mem.name
                        ent = prefix + '::' + mem.name
                        if margs:
                            ent += '<' + ','.join(tname(a) for a in margs) + '>'
                        rt = replace(mem.ret, t1=subst(mem.ret.t1, env, this),
                                     t2=subst(mem.ret.t2, env, this) if mem.ret.t2 else None)
                        calls('call', pypath + [pn], None, None, mem.args, env, this, ent, '-',
                              P.result(qual + '::' + mem.name, None, rt, pyn))
                if not insts:
                    continue
                obj = draw(st.sampled_from(insts))
                if isinstance(mem, M.Method):
                    if mem.name in ('serialize', 'serializable'):
                        continue
                    for menv, margs in member_envs(mem.template):
                        env = dict(cenv, **menv)
                        base = mem.name + inst_suffix(margs)
                        pn = pyexec.pyname(base)
                        if mem.template is None and mem.name in (
                                'svg', 'png', 'jpeg', 'html', 'javascript', 'markdown', 'latex'):
                            pn = '_repr_%s_' % mem.name
                        ent = prefix + '::' + mem.name
                        if margs:
                            ent += '<' + ','.join(tname(a) for a in margs) + '>'
                        rt = replace(mem.ret, t1=subst(mem.ret.t1, env, this),
                                     t2=subst(mem.ret.t2, env, this) if mem.ret.t2 else None)
                        calls('method', None, obj, pn, mem.args, env, this, ent, '{%s}' % obj,
                              P.result(qual + '::' + mem.name, None, rt, pyn))
                elif isinstance(mem, M.Prop):
                    t = subst(mem.type, cenv, this)
                    add({'kind': 'getattr', 'obj': obj, 'name': mem.name},
                        {'trace': [], 'result': {'t': 'any'}})
                    v = P.value(key_of(t), replace(t, ptr='' if t.ptr == '&' else t.ptr))
                    if v is not None:
                        if t.const:
                            add({'kind': 'setattr', 'obj': obj, 'name': mem.name, 'args': [v[0]]},
                                {'trace': [], 'error': 'AttributeError'})
                        else:
                            add({'kind': 'setattr', 'obj': obj, 'name': mem.name, 'args': [v[0]]},
                                {'trace': [], 'result': {'t': 'none'}})
                            if v[0]['t'] in ('int', 'bool', 'float', 'str'):
                                add({'kind': 'getattr', 'obj': obj, 'name': mem.name},
                                    {'trace': [], 'result': v[0]})
                elif isinstance(mem, M.Operator):
                    e = prefix + '::operator' + mem.op
                    if mem.op == '[]' or mem.op == '()':
                        got = args_for(mem.args, cenv, this)
                        if got is None:
                            continue
                        expr = 'a[b]' if mem.op == '[]' else 'a(b)'
                        add({'kind': 'op', 'obj': obj, 'expr': expr, 'args': got[0]},
                            {'trace': [{'entity': e, 'sig': sig_of(mem.args),
                                        'this': '{%s}' % obj, 'args': got[1]}],
                             'result': {'t': 'any'}})
                    elif not mem.args:
                        add({'kind': 'op', 'obj': obj, 'expr': mem.op + 'a', 'args': []},
                            {'trace': [{'entity': e, 'sig': '()', 'this': '{%s}' % obj,
                                        'args': []}], 'result': {'t': 'instance', 'cls': pyn}})
                    else:
                        other = draw(st.sampled_from(insts))
                        byval = mem.args[0].type.ptr == ''
                        inplace = {'+=': 'iadd', '-=': 'isub', '*=': 'imul', '/=': 'itruediv',
                                   '%=': 'imod', '^=': 'ixor', '&=': 'iand', '|=': 'ior',
                                   '<<=': 'ilshift', '>>=': 'irshift'}
                        expr = 'operator.%s(a, b)' % inplace[mem.op] if mem.op in inplace \
                            else 'a %s b' % mem.op
                        add({'kind': 'op', 'obj': obj, 'expr': expr,
                             'args': [{'t': 'obj', 'ref': other}]},
                            {'trace': [{'entity': e, 'sig': sig_of(mem.args),
                                        'this': '{%s}' % obj,
                                        'args': ['obj#' + (pyexec.WILD if byval
                                                           else '{%s}' % other)]}],
                             'result': {'t': 'instance', 'cls': pyn}})
                elif isinstance(mem, M.Dunder):
                    if mem.name == 'len':
                        add({'kind': 'op', 'obj': obj, 'expr': 'len(a)', 'args': []},
                            {'trace': [], 'result': {'t': 'int', 'v': 3}})
                    elif mem.name == 'iter':
                        add({'kind': 'op', 'obj': obj, 'expr': 'list(a)', 'args': []},
                            {'trace': [], 'result': {'t': 'list', 'v': [
                                {'t': 'int', 'v': 1}, {'t': 'int', 'v': 2},
                                {'t': 'int', 'v': 3}]}})
                    elif mem.name == 'contains':
                        x = draw(st.integers(0, 5))
                        add({'kind': 'op', 'obj': obj, 'expr': 'b in a',
                             'args': [{'t': 'int', 'v': x}]},
                            {'trace': [], 'result': {'t': 'bool', 'v': x in (1, 2, 3)}})
                elif isinstance(mem, M.Enum) and c.template is None:
                    for i, n in enumerate(mem.enumerators):
                        add({'kind': 'enumint', 'target': pypath + [mem.name, n]},
                            {'trace': [], 'result': {'t': 'int', 'v': 10 * i + 3}})
            P.classes[ckey] = pypath

    do_scope(m, (), False)
    do_scope(m, (), True)
    return steps


# ------------------------------------------------------------------ build and run

def build_and_run(m, steps, split=None):
    """split = (cuts, stems): the module's top-level items are cut into len(cuts)+1 parts; the
    last part is the main interface file, the earlier ones are additional files (sub-module
    initialisers run before the main body, so registration order equals declaration order);
    every part is wrapped through PybindWrapper.wrap / wrap_submodule, compiled separately and
    all objects are linked into one extension module."""
    d = wraps.scratch_dir('c04')
    cwd = os.getcwd()
    try:
        with open(os.path.join(d, 'vmock.h'), 'w') as f:
            f.write(cxxmock.emit(m))
        sources = []
        if split is None:
            with open(os.path.join(d, 'tu.cpp'), 'w') as f:
                f.write(wraps.pybind_text(R.text(m), module_name='vmod', tpl=TPL))
            sources.append(os.path.join(d, 'tu.cpp'))
        else:
            cuts, stems = split
            items = list(m.content)
            bounds = [0] + list(cuts) + [len(items)]
            parts = [M.Module(tuple(items[bounds[i]:bounds[i + 1]]))
                     for i in range(len(bounds) - 1)]
            names = list(stems[:len(parts) - 1]) + ['main']
            files = []
            for part, nm in zip(parts, names):
                fn = os.path.join(d, nm + '.i')
                with open(fn, 'w') as f:
                    f.write(R.text(part))
                files.append(fn)
            w = wraps.pybind_wrapper(module_name='vmod', tpl=TPL)
            os.chdir(d)
            w.wrap([files[-1]] + files[:-1], os.path.join(d, 'vmod_main.cpp'))
            sources.append(os.path.join(d, 'vmod_main.cpp'))
            for fn, nm in zip(files[:-1], names[:-1]):
                w.wrap_submodule(fn)
                sources.append(os.path.join(d, nm + '.cpp'))
            os.chdir(cwd)
        so = os.path.join(d, 'vmod' + sysconfig.get_config_var('EXT_SUFFIX'))
        base = ['g++', '-std=c++17', '-O0', '-fPIC', '-w', '-fvisibility=hidden',
                '-I' + d, '-I' + os.path.join(REPO, 'pybind11', 'include'),
                '-I' + sysconfig.get_paths()['include']]
        if len(sources) == 1:
            r = subprocess.run(base + ['-shared', sources[0], '-o', so], capture_output=True,
                               text=True, timeout=1800)
            if r.returncode != 0:
                return {'compile_error': c09.first_error(r.stderr)}
        else:
            procs = [(src, subprocess.Popen(base + ['-c', src, '-o', src[:-4] + '.o'],
                                            stdout=subprocess.PIPE, stderr=subprocess.PIPE,
                                            text=True)) for src in sources]
            for src, pr in procs:
                _, err = pr.communicate(timeout=1800)
                if pr.returncode != 0:
                    return {'compile_error': '%s: %s' % (os.path.basename(src),
                                                         c09.first_error(err))}
            r = subprocess.run(['g++', '-shared'] + [src[:-4] + '.o' for src in sources] +
                               ['-o', so], capture_output=True, text=True, timeout=1800)
            if r.returncode != 0:
                return {'link_error': r.stderr[-400:]}
        with open(os.path.join(d, 'driver.py'), 'w') as f:
            f.write(pyexec.DRIVER)
        plan = {'module': 'vmod', 'steps': [{k: v for k, v in s.items() if k != 'expect'}
                                            for s in steps]}
        json.dump(plan, open(os.path.join(d, 'plan.json'), 'w'))
        r = subprocess.run([sys.executable, os.path.join(d, 'driver.py'), so,
                            os.path.join(d, 'plan.json'), os.path.join(d, 'out.json')],
                           capture_output=True, text=True, timeout=600,
                           env=dict(os.environ, PYTHONHASHSEED='0'))
        if not os.path.exists(os.path.join(d, 'out.json')):
            return {'crash': 'driver exit %d: %s' % (r.returncode, r.stderr[-300:])}
        return json.load(open(os.path.join(d, 'out.json')))
    finally:
        os.chdir(cwd)
        shutil.rmtree(d, ignore_errors=True)


def match_result(want, got):
    if want['t'] == 'any':
        return True
    if want['t'] == 'shown':
        s = want['v']
        if got['t'] == 'int':
            return s.rstrip('zd') == str(got['v']) or s == 'u%d' % got['v']
        if got['t'] == 'float':
            return s.rstrip('df') == ('%g' % got['v'])
        if got['t'] == 'bool':
            return s == ('true' if got['v'] else 'false')
        if got['t'] == 'str':
            return s in ('"%s"' % got['v'], "'%s'" % got['v'])
        if got['t'] == 'enumint':
            return s == 'enum:%d' % got['v']
        return False
    if want['t'] == 'instance':
        return got['t'] == 'instance' and (got['cls'] == want['cls'] or
                                           want['cls'] in got.get('mro', []))
    if want['t'] == 'enumint':
        return got['t'] in ('enumint', 'int') and got['v'] == want['v']
    if want['t'] == 'pair':
        return got['t'] == 'pair' and match_result(want['a'], got['a']) and \
            match_result(want['b'], got['b'])
    if want['t'] == 'float':
        return got['t'] in ('float', 'int') and abs(got['v'] - want['v']) < 1e-9
    if want['t'] == 'int' and got['t'] == 'enumint':
        return got['v'] == want['v']
    if want['t'] == 'list':
        return got['t'] == 'list' and len(got['v']) == len(want['v']) and all(
            match_result(a, b) for a, b in zip(want['v'], got['v']))
    return {k: v for k, v in got.items() if k in ('t', 'v')} == \
        {k: v for k, v in want.items() if k in ('t', 'v')}


def check(case):
    m, steps = case['m'], case['plan']
    try:
        res = build_and_run(m, steps, case.get('split'))
    except subprocess.TimeoutExpired:
        raise RuntimeError('INCONCLUSIVE: build or run timed out')
    except Exception as e:
        if type(e).__name__ in ('ParseException', 'ValueError', 'AssertionError',
                                'AttributeError', 'TypeError', 'KeyError', 'IndexError'):
            return [Failure('C04.generator-raises', '%s: %s' % (type(e).__name__, str(e)[:200]))]
        raise
    case['_executed'] = 0
    if 'compile_error' in res:
        return [Failure('C04.not-executed-compile-error', res['compile_error'])]
    if 'link_error' in res:
        return [Failure('C04.link-error', res['link_error'])]
    if 'crash' in res:
        return [Failure('C04.crash', res['crash'])]
    if res.get('import_error'):
        return [Failure('C04.import-error', res['import_error'])]
    out = []
    ids = {}  # python variable -> object id learned from the trace
    by_id = {s['id']: s for s in steps}
    for r in res['steps']:
        s = by_id[r['id']]
        exp = s['expect']
        case['_executed'] += 1
        label = '%s %s %s' % (s['kind'], '.'.join(s.get('target', [])) or
                              '%s.%s' % (s.get('obj'), s.get('name', s.get('expr'))),
                              s.get('variant', ''))
        if 'error' in exp:
            if 'error' not in r or not r['error'].startswith(exp['error']):
                out.append(Failure('C04.const-property', '%s: expected %s, got %s' % (
                    label, exp['error'], r.get('error', r.get('result')))))
            continue
        if 'error' in r:
            out.append(Failure('C04.call-fails', '%s: %s' % (label, r['error'])))
            continue
        # ---- trace
        want_t = exp['trace']
        got_t = r['trace']
        # the mock builds returned objects with the class's default constructor; if the
        # interface declares that constructor it leaves a record of its own
        if len(got_t) > len(want_t):
            wanted = {w_['entity'] for w_ in want_t}
            kept = [g_ for g_ in got_t
                    if not (re.search(r'(\w+)(?:<[^|]*>)?::\1\|\(\)\|this=\d+\|$', g_) and
                            g_.split('|(')[0] not in wanted)]
            if len(kept) >= len(want_t):
                got_t = kept
            # (a wanted default constructor may itself occur as such noise: keep the last ones)
            while len(got_t) > len(want_t) and \
                    re.search(r'::(\w+)\|\(\)\|this=\d+\|$', got_t[0]):
                got_t = got_t[1:]
        if len(got_t) != len(want_t):
            out.append(Failure('C04.trace-count', '%s: library recorded %s, expected %d '
                               'call(s)' % (label, got_t[:3], len(want_t))))
            continue
        for w, g in zip(want_t, got_t):
            cut = g.index('|(')  # the entity itself may contain '|' (operator|, operator|=)
            ent = g[:cut]
            sig, this, args = g[cut + 1:].split('|', 2)
            if ent != w['entity']:
                out.append(Failure('C04.entity', '%s: reached %s, declared %s' % (label, ent,
                                                                              w['entity'])))
                continue
            if sig != w['sig']:
                out.append(Failure('C04.overload', '%s: overload %s%s, expected %s' % (
                    label, ent, sig, w['sig'])))
                continue
            wt = w['this']
            if wt == '-':
                if this != '-':
                    out.append(Failure('C04.instance-vs-static', '%s: called on an instance' %
                                       label))
            elif wt is not None:
                var = wt.strip('{}')
                gid = this.replace('this=', '')
                if this == '-':
                    out.append(Failure('C04.instance-vs-static', '%s: not an instance call' %
                                       label))
                elif var in ids and ids[var] != gid:
                    out.append(Failure('C04.this', '%s: ran on object %s, the handle is object '
                                       '%s' % (label, gid, ids[var])))
                else:
                    ids.setdefault(var, gid)
            ga = args.split(';') if args else []
            wa = list(w['args'])
            ok = len(ga) == len(wa)
            if ok:
                for x, y in zip(wa, ga):
                    mm = re.match(r'^(.*)\{(\w+)\}$', x)
                    if x.endswith(pyexec.WILD):
                        ok = ok and y.startswith(x[:-1])
                    elif mm:
                        var = mm.group(2)
                        if var in ids:
                            ok = ok and y == mm.group(1) + ids[var]
                        else:
                            ok = ok and y.startswith(mm.group(1))
                    else:
                        ok = ok and x == y
            if not ok:
                out.append(Failure('C04.arguments', '%s: C++ received (%s), expected (%s)' % (
                    label, args, ';'.join(wa))))
        # ---- result
        if 'result' in exp and 'result' in r:
            if not match_result(exp['result'], r['result']):
                clause = 'C04.void-vs-value' if (exp['result']['t'] == 'none') != \
                    (r['result']['t'] == 'none') else 'C04.result'
                out.append(Failure(clause, '%s: Python received %s, expected %s' % (
                    label, r['result'], exp['result'])))
    # de-duplicate by clause+text
    seen, uniq = set(), []
    for f in out:
        if (f.clause, f.detail) not in seen:
            seen.add((f.clause, f.detail))
            uniq.append(f)
    return uniq[:20]


def features(case):
    m, steps = case['m'], case['plan']
    f = set()
    kinds = {s['kind'] for s in steps}
    for s in steps:
        v = s.get('variant', '')
        if v.startswith('omit'):
            f.add('default-omitted')
        if v == 'keywords':
            f.add('keyword-call')
    for _, it in M.iter_items(m):
        if isinstance(it, M.Class):
            if it.parent is not None:
                f.add('base-class')
            if it.template is not None:
                f.add('class-template')
            if sum(1 for x in it.members if isinstance(x, M.Ctor)) >= 2:
                f.add('overload-set>=2')
            if any(getattr(x, 'template', None) for x in it.members):
                f.add('member-template')
        if isinstance(it, M.Func) and it.template is not None:
            f.add('function-template')
    if 'op' in kinds:
        f.add('operator-or-dunder')
    if 'setattr' in kinds:
        f.add('property')
    if len(steps) >= 10:
        f.add('steps>=10')
    return f


def describe(case):
    return {'model': M.to_json(case['m']), 'text': R.text(case['m']), 'plan': case['plan']}


def from_replay(o):
    if 'model' in o:
        return {'m': M.from_json(o['model']), 'plan': o['plan']}
    from vlib import reader
    import random
    from hypothesis import strategies as st
    m = reader.read(o['text'])
    return {'m': m, 'plan': build_plan(m, lambda s: s.example() if False else _first(s))}


def _first(strategy):
    from hypothesis import find
    return find(strategy, lambda x: True)


SPEC = Spec(
    pid='C04',
    strategy=lambda tier: cases(tier),
    check=check,
    describe=describe,
    from_replay=from_replay,
    key=lambda c: R.text(c['m']),
    features=features,
    nontrivial=lambda c, f: bool(f & {'overload-set>=2', 'default-omitted', 'class-template',
                                      'member-template', 'function-template', 'base-class'}),
    rule="Hypothesis draws a module from the executable profile (bool/char/unsigned char/int/"
         "size_t/double/float/string, enums, generated classes by value / const& / & / * / @, "
         "pair returns; constructors with overload sets of disjoint arity ranges, methods, "
         "static methods, properties incl. const, operators, dunder methods, class / member / "
         "function templates, inheritance, namespaces) and a call plan: every binding is called "
         "all-positional, with each admissible number of trailing defaults omitted, and all-by-"
         "keyword in a drawn order. The TU is compiled (g++ -shared) against the mock library "
         "generated from the model and imported in a fresh CPython. Oracle per call: the trace "
         "record equals the predicted one (fully-qualified entity incl. class and member "
         "template arguments, declared overload signature, `this` = the object the handle was "
         "created for, argument values in declared order, defaults = value of the declared "
         "expression), instance vs class-level call, result None iff void else the entity's "
         "characteristic value / an instance of the bound class, properties read back what was "
         "written and const ones refuse assignment, int(Enum.X) = the C++ enumerator's value, "
         "issubclass(Derived, Base). evaluations = modules; the feature histogram and samples "
         "report steps. Non-trivial: overload set >= 2, omitted default, template, base class.",
    budget={'quick': 2, 'thorough': 16},
    size=lambda c: len(R.text(c['m'])),
    sample_fn=lambda c: {'text': R.text(c['m'])[:1000],
                         'steps': [{k: v for k, v in s.items() if k != 'expect'}
                                   for s in c['plan'][:6]], 'n_steps': len(c['plan'])},
    shrink_budget=6,
    assumptions=["overload sets whose arity ranges overlap are not called (pybind11 resolves "
                 "them by registration order and implicit conversions)",
                 "by-value class arguments are copies: their object id is a wildcard",
                 "vlib.cxxmock is the instrumented conforming library (trusted base)"],
)
