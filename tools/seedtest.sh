#!/bin/sh
# tools/seedtest.sh <seeded/NAME | patch.diff> <ID> [<ID> ...]
# Applies a seeded change to a scratch worktree of /repo HEAD (outside /repo and /verif), runs the
# given checks against it through VERIF_REPO, prints the verdicts and removes the worktree.
P="$1"; shift
[ -d "$P" ] && P="$P/patch.diff"
P="$(readlink -f "$P")"
NAME=$(basename "$(dirname "$P")")
WT=/tmp/wt_seed_$NAME
cd /verif
rm -rf $WT; git -C /repo worktree prune
git -C /repo worktree add -q --detach $WT HEAD || exit 2
cp /repo/gtwrap/matlab_wrapper/matlab_wrapper.tpl $WT/gtwrap/matlab_wrapper/ 2>/dev/null
if ! git -C $WT apply "$P" 2>/dev/null; then echo "PATCH-DOES-NOT-APPLY $P"; git -C /repo worktree remove --force $WT; exit 3; fi
for id in "$@"; do
  out=$(VERIF_REPO=$WT VERIF_FOUND=found_$NAME ./check "$id" --tier "${TIER:-quick}" 2>&1); rc=$?
  echo "== $NAME $id rc=$rc"; echo "$out" | grep -E "^(FAIL|HARNESS)" | cut -c1-260 | head -${SHOW:-4}
done
git -C /repo worktree remove --force $WT
rm -rf /verif/replays/found_$NAME
