#!/bin/sh
# run every stored seeded change against the check of its own property (and extra ones given)
# PATTERN='*-m[34]' restricts the set
cd /verif
for d in seeded/${PATTERN:-*}/; do n=$(basename $d); pid=${n%%-*}; [ -f checks/$(echo $pid | tr A-Z a-z).py ] || continue
  tools/seedtest.sh $d $pid "$@" 2>&1 | grep -v "^$"; done
