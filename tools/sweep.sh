#!/bin/sh
# tools/sweep.sh "<seeds>" [tier]  - run every registered check (or those in $IDS) at several seeds; print verdicts
cd "$(dirname "$0")/.."
TIER=${2:-quick}
for seed in $1; do
  for id in ${IDS:-C01 C02 C03 C04 C05 C06 C07 C08 C09 C10 C11 C12 C13 C14 C15 C16 C17 C18 C19}; do
    out=$(VERIF_SEED=$seed VERIF_FOUND=found_sweep ./check $id --tier $TIER 2>&1); rc=$?
    echo "seed=$seed $id rc=$rc $(echo "$out" | grep -E "^C[0-9]+ (quick|thorough)" | tail -1)"
    [ $rc -ne 0 ] && echo "$out" | grep -E "^(FAIL|HARNESS|VIOLATION)" | cut -c1-400 | head -6
  done
done
