#!/bin/sh
# tools/round.sh <dir with <ID>/<mK>/{patch.diff,demo.py,meta.json}> "<mK ...>" [IDs...]
# confirm every change of a round at /repo HEAD and store it under seeded/<ID>-<mK>
D="$1"; MS="$2"; shift 2
IDS="${*:-C01 C02 C03 C04 C05 C06 C07 C08 C09 C10 C11 C12 C13 C14 C15 C16 C17 C18 C19}"
cd /verif
for id in $IDS; do for m in $MS; do
  [ -f "$D/$id/$m/patch.diff" ] && tools/confirm_seed.sh "$D/$id/$m" "$id-$m" 2>&1 | tail -2
done; done
