#!/usr/bin/env python3
"""Regenerate MANIFEST.json from the table below (run from /verif)."""
import json, os

CHECKS = {
 'C01': dict(tech="Hypothesis model-based generation of interface files + round-trip oracle (parse tree projection == generated model); independent reader for fixtures",
             text="Generated-input search: whole-tree equality between a model of the file and gtwrap's parse tree, on 1k (quick) / 24k (thorough) generated files covering every construct of the dialect, plus the 11 fixtures read by an independent reader. Finds dropped/invented/reordered/re-scoped declarations and lost qualifiers; cannot show absence.",
             note="Trusted: vlib.render (spelling of the dialect), vlib.project (reads gtwrap node attributes), the generator's soundness rules in DESIGN.md 2.1.", ref="3/C01"),
}
CHECKS.update({
 'C02': dict(tech="Hypothesis model-based generation of templated declarations + reference-model oracle (capture-free structural substitution on the model vs to_cpp() of every instantiated type)",
             text="Generated-input search against an independent reference substitution: every argument/return/property/operator/base/dunder type of every instantiation is compared with the reference spelling; parameters are placed at depth 1..4, scoped, qualified, next to look-alike identifiers, with `This`. Cannot show absence.",
             note="Trusted: vlib.refinst (reference semantics stated in its docstring), vlib.instproj (reads to_cpp()). Shapes excluded while finding F-21 is open are counted in DESIGN.md.", ref="3/C02"),
 'C08': dict(tech="Hypothesis model-based generation + reference enumeration oracle (ordered Cartesian products, names, Name<args>, typedefs, pass-through) compared with the instantiated tree",
             text="Generated-input search against a reference enumeration of instantiations: per scope the ordered sequence (kind, name, C++ spelling, namespace path) must equal the reference, likewise member products inside each class instantiation. Cannot show absence.",
             note="Trusted: vlib.refinst.expected, vlib.instcmp. Position of typedef-derived items relative to the others is not checked.", ref="3/C08"),
 'C13': dict(tech="Hypothesis metamorphic testing: sublist/permutation of instantiation lists, alpha-renaming of parameters, repeated fresh parses; equality of per-instantiation projections, pybind blocks, pybind TU and MATLAB toolbox",
             text="Metamorphic generated-input search: three transformations that must not change an instantiation; both sides come from gtwrap, so no reference spelling is needed. Cannot show absence.",
             note="Trusted: the model transformations in checks/c13.py and vlib.model.rename_param (scoping of member-level parameters).", ref="3/C13"),
})
CHECKS.update({
 'C07': dict(tech="Hypothesis token-level corruption of generated files + accept=>token-accounting round trip, must-reject cases for explicit parser and instantiator validation rules (the latter must fail in every generator entry point), fault-injection style end-to-end runs of both generators and scripts against pre-seeded output",
             text="Generated-input search: 1k/24k corrupted files; an accepted input must have every primitive token accounted for in the tree and re-parse to itself; inputs violating an explicit validation rule must be rejected; a failing generator/script run must leave a pre-seeded output location byte-identical. Cannot show absence; termination is observed with a 300 s guard only.",
             note="Trusted: vlib.reader.lex (primitive lexer), the two normalisations (std::pair, enum class) applied to both sides, vlib.project/render. atheris byte-level fuzzing is not part of the registered commands.", ref="3/C07"),
 'C12': dict(tech="Hypothesis metamorphic testing over layouts: per-gap fillers (whitespace, hostile C/C++ comments, abutting tokens); equality of parse projection and byte-identical generator outputs",
             text="Metamorphic generated-input search: compact, one-space and drawn layouts of one token stream must parse alike and generate byte-identical pybind/MATLAB output.",
             note="Trusted: the token boundaries of vlib.render (single tokens listed in the evidence assumptions), fix_gap's legality rules.", ref="3/C12"),
 'C19': dict(tech="Hypothesis-generated scaled input families + deterministic operation counter (uncached pyparsing match attempts) with growth-ratio and absolute bounds; counter cap cuts exponential runs",
             text="Generated-input search with a deterministic cost oracle: growth under doubling <= 8 (cubic) and steps <= 150*len*(1+depth) for namespace depth, template depth, mixed and size families built from random seeds. Samples finitely many sizes (<=16/32 deep, <=40/80 declarations).",
             note="Trusted: the counter wrapper around ParserElement._parseNoCache installed by the harness process (no repo hook). Wall-clock is recorded, never decides.", ref="3/C19"),
})
CHECKS.update({
 'C03': dict(tech="Hypothesis model-based generation x option sets + reference-model oracle: multiset of binding records scanned from the emitted pybind11 TU == records computed from the instantiated model; submodule creation order",
             text="Generated-input search against an independent reference inventory (names, submodule placement, overload signatures, keyword escaping, ignore list, top namespace at any depth, serialization flag). Exactly-one is checked by multiset equality. Cannot show absence.",
             note="Trusted: vlib.pyscan (scanner, validated on the 9 golden TUs and, for executable modules, by C04), vlib.refpy, vlib.refinst.", ref="3/C03"),
 'C15': dict(tech="Hypothesis metamorphic testing: ignore(X) == delete(X) (pybind byte-for-byte, MATLAB modulo rank-normalised ids); deleting an unrelated declaration leaves all other statements/classdefs unchanged",
             text="Metamorphic generated-input search over classes (global/namespaced, templated, virtual, with enums/serialize) and unrelated declarations, both serialization settings. Both sides come from gtwrap.",
             note="Trusted: vlib.matnorm id normalisation; the 'nothing else depends on X' side condition computed on the model (no typedef names X).", ref="3/C15"),
})
CHECKS.update({
 'C14': dict(tech="Hypothesis-generated (input, configuration, history, parallel job set) + differential oracle against an in-process reference run (byte equality of every output) + audit-hook file-access whitelist observed in child processes",
             text="Generated configurations (hash seed, cwd, locale x UTF-8 mode, earlier wrap_file calls on the same and on other PybindWrapper objects, lists of further sub-module files, stale previous output, repetition, 1/3/5 concurrent script/API processes in one build directory): outputs byte-identical to the reference; only requested files written, only inputs/templates/interpreter files read. Parallel runs sample OS schedules (the harness does not own the scheduler).",
             note="Trusted: vlib/c14_driver.py (sys.addaudithook in the child), the read whitelist in checks/c14.py (interpreter prefixes, gtwrap package, inputs).", ref="3/C14"),
 'C16': dict(tech="Hypothesis-generated file splits, tails and option sets + composition oracles (main/sub-module structure and body equality, MATLAB list == concatenation) + subprocess differential script vs library API",
             text="Generated-input search: module split into 1..4 files with adversarial final characters; main TU declares/invokes one initialiser per part in order; every part's TU equals wrapping its text alone; MATLAB wrap(list) == wrap(joined); scripts byte-identical to the library API (1 in 8 cases, both spellings of the top namespace); 1 in 24 cases is an executable module cut into 2..4 TUs that are compiled separately, linked, imported and driven by C04's call plan.",
             note="Trusted: section markers in the harness's module template (vlib.wraps.PYBIND_TPL), which is 'the user-supplied module template'.", ref="3/C16"),
})
CHECKS.update({
 'C17': dict(tech="Hypothesis-generated interfaces + Doxygen XML trees (faults, Unicode texts) + three oracles: marker-based reference selection, independent C++ string-literal decoder vs extracted text, literal-deletion isolation",
             text="Generated-input search: selection (overloads by parameter names, optional parameters, k-th overload), escaping (decoded literal == extracted text for all XML-1.0 Unicode incl. quotes, backslashes, C1 controls, NBSP, astral), empty docstring for missing/partial/ill-formed XML without an error, and identity of the rest of the TU.",
             note="Trusted: the C++ literal decoder in checks/c17.py (greedy \\x, 3-digit octal, UCNs), vlib.pyscan. Every 4th case also compiles its literals with g++ -std=c++17 and requires the compiler's bytes to equal the decoder's (disagreement = harness error).", ref="3/C17"),
})
CHECKS.update({
 'C05': dict(tech="Hypothesis model-based generation + structural oracle on the scanned toolbox: id <-> case <-> routine bijection, contiguity, role/class/member/overload agreement between .m call sites and MEX routines, id count from the model",
             text="Generated-input search over what moves the id counter (virtual classes, bases, defaulted constructors/methods, properties, free functions in namespaces, templates, serialization, ignore lists). Cannot show absence.",
             note="Trusted: vlib.matscan (line scanner of .m and wrapper .cpp, validated on the 11 fixtures), vlib.refmat count rule.", ref="3/C05"),
 'C06': dict(tech="Hypothesis model-based generation + positional-fact oracle: offered arities/type families vs declared overloads with defaults expanded; per branch checkArguments count, unwrap indices/names/primitives, call arguments incl. omitted defaults verbatim, callee, return wrapping and output counts",
             text="Generated-input search over callables (constructors, methods, static methods, free functions), parameter lists, suffix default masks, passing modes (incl. enums) and return shapes; compares scanned structure with the instantiated model, never cosmetic strings.",
             note="Trusted: vlib.refmat (unwrap_mode / passes_deref rules read from the property statement and DOCS), vlib.matscan. Guard families are shape-aware (Vector n x 1, Point2 2 x 1, Point3 3 x 1); a parameter naming one of the module's own instantiations must be guarded by that class's MATLAB name when its arguments are capitalised (otherwise the spelling is open finding F-37); a wrapped enum must name the generated enumeration class. Open findings F-12, F-27, F-28, F-34, F-36, F-37 are excluded by construction and reported from their witnesses.", ref="3/C06"),
 'C10': dict(tech="Hypothesis model-based generation x ignore lists x serialization + oracle: output file set and parsed classdef/enum/MEX-preamble structure == structure computed from the model",
             text="Generated-input search: exact file set with package paths, classdef base/pointer property/constructor/delete/method/static/accessor inventory, enumerator numbering, collectors/clean-up/RTTI in the MEX preamble.",
             note="Trusted: vlib.matscan, vlib.refmat.expected_toolbox. Templated base classes are excluded while F-29 (golden-pinned) is open.", ref="3/C10"),
})
CHECKS.update({
 'C18': dict(tech="Hypothesis-generated values, array shapes and handle operation sequences driving the unmodified matlab.h (compiled against a mock MEX runtime) through ctypes; round-trip, error-instead-of-value and model-based ownership oracles; each case isolated in a forked child so crashes are findings",
             text="Generated-input search on the real header: 5k (quick) / 190k (thorough) cases over scalar extremes, strings, vectors, matrices (shape and element positions), rejection of non-scalars / non-double arrays, and wrap/unwrap/release histories against a model of owners and handles.",
             note="Trusted: vlib/mexmock (mock MEX API written from MathWorks' documented semantics, stand-in gtsam containers), the shim c18_shim.cpp. Rebuilt whenever /repo/matlab.h changes.", ref="3/C18"),
})
CHECKS.update({
 'C09': dict(tech="Hypothesis model-based generation (compilable profile) + textual oracles on every TU (no surviving template parameter, scannable well-formed statements, lambda/py::arg agreement, namespace qualification) + g++ -std=c++17 -fsyntax-only of a drawn sample against a mock library header generated from the model",
             text="Generated-input search with the compiler in the loop: ~40 (quick) / ~1200 (thorough) TUs compiled against a conforming library emitted from the model, 770 / 16k TUs checked textually. Cannot show absence.",
             note="Trusted: vlib.cxxmock (the conforming library), g++ 12, the bundled pybind11 headers. Boost serialization output is not compiled (no Boost).", ref="3/C09"),
})
CHECKS.update({
 'C04': dict(tech="Hypothesis model-based generation (executable profile) + differential execution: the emitted TU is compiled against an instrumented mock library generated from the model, imported in a fresh CPython and driven by a generated call plan; trace and results vs predictions from the model",
             text="Generated programs are built and run: 32 (quick) / 256 (thorough) modules, every binding called positionally, with each admissible number of defaults omitted and by keyword; entity incl. template arguments, overload signature, this, argument values, defaults, static vs instance, void vs value, const properties, enumerator values and base-class registration are compared with predictions. Cannot show absence.",
             note="Trusted: vlib.cxxmock (instrumented conforming library), vlib.pyexec (predictions), g++ 12, bundled pybind11, CPython 3.12. Overload sets with overlapping arity ranges are not called (pybind11's resolution).", ref="3/C04"),
})
CHECKS.update({
 'C11': dict(tech="Hypothesis-generated gateways x call histories (model-based / stateful): the generated MEX source is compiled unmodified with the real matlab.h on a mock MEX runtime and an instrumented mock library, and driven by a MATLAB-object emulator that executes the generated guards and id protocol; trace, results, collector sizes and live-object counts vs a model of live handles after every step and after unload",
             text="Generated programs and histories are built and run: 96 (quick) / 768 (thorough) gateways with histories of 4-26 calls (construct, method of class or ancestor, static, function, property get/set, object returned from C++, delete, unload). A crash (double free) fails the case. Callables taking and returning a shared pointer of one class hand back their argument, so two handles on one C++ object occur (the model counts distinct objects). Cannot show absence; the RTTI up-cast branch is not reached (stated in evidence assumptions).",
             note="Trusted: vlib/mexmock (mock MEX API), vlib.matlab_emu (MATLAB object semantics: constructor chains, method inheritance, delete order), vlib.cxxmock, vlib.matscan. No AddressSanitizer.", ref="3/C11"),
})
PENDING = {}

def main():
    props = [json.loads(l)['id'] for l in open('properties.jsonl')]
    checks = []
    for pid in props:
        if pid not in CHECKS:
            continue
        c = CHECKS[pid]
        checks.append({
            "property_id": pid,
            "quick_cmd": "./check %s --tier quick" % pid,
            "thorough_cmd": "./check %s --tier thorough" % pid,
            "evidence_file": "evidence/%s.json" % pid,
            "replay_cmd_template": "./check %s --replay {path}" % pid,
            "engine": "hypothesis",
            "level_claimed": {"category": c.get('level', 'exploration'), "text": c['text'],
                              "design_ref": "DESIGN.md section " + c['ref']},
            "level_note": c['note'],
            "technique": c['tech'],
        })
    na = [{"property_id": p, "reason": PENDING.get(p, "check not built yet in this round of work; planned per DESIGN.md section 3 (property-based testing applies)")}
          for p in props if p not in CHECKS]
    man = {
        "version": 1,
        "setup_cmd": "./setup.sh",
        "hooks": {"guard": "BORGLAB_WRAP_VERIF", "enable": "none needed: checks import /repo's working tree directly; counters and audit hooks are installed by the harness process",
                  "baseline_off_cmd": "cd /repo && /venv/bin/python -m pytest -q -p no:cacheprovider tests",
                  "source_commits": [], "add_only": True},
        "engines": [{"name": "hypothesis", "path": "vlib/runner.py", "serves_properties": [c["property_id"] for c in checks],
                     "kind_free_text": "Hypothesis 6.168 strategies over a model of the interface dialect; 16 seeded worker processes; collect-then-shrink; replay files"}],
        "checks": checks,
        "not_applicable": na,
        "notes": "All checks: cwd=/verif, ./check <ID> --tier quick|thorough, VERIF_SEED honoured, exit 0/1/2 (2 = harness error, never a VIOLATION). Known findings: known_findings.jsonl.",
    }
    json.dump(man, open('MANIFEST.json', 'w'), indent=1)
    print("checks:", [c['property_id'] for c in checks], "n/a:", len(na))

if __name__ == '__main__':
    main()
