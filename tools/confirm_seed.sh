#!/bin/sh
# tools/confirm_seed.sh <srcdir with patch.diff demo.py meta.json> <name>
# Confirms in a scratch worktree of /repo HEAD: tests pass with the change, demo fails with it and
# passes without it; then stores it under /verif/seeded/<name>/.
SRC="$1"; NAME="$2"; WT=/tmp/wt_confirm
[ -d $WT ] || { git -C /repo worktree add -q --detach $WT HEAD; }
git -C $WT checkout -q --detach $(git -C /repo rev-parse HEAD); git -C $WT checkout -q -- .; git -C $WT clean -fdq
cp /repo/gtwrap/matlab_wrapper/matlab_wrapper.tpl $WT/gtwrap/matlab_wrapper/ 2>/dev/null
cd $WT
if ! git apply --check "$SRC/patch.diff" 2>/dev/null; then echo "$NAME: PATCH-DOES-NOT-APPLY"; exit 3; fi
PYTHONPATH=$WT timeout 600 /venv/bin/python "$SRC/demo.py" >/tmp/demo_clean.log 2>&1; RC_CLEAN=$?
git apply "$SRC/patch.diff"
T=$(PYTHONPATH=$WT /venv/bin/python -m pytest -q -p no:cacheprovider tests 2>&1 | tail -1)
PYTHONPATH=$WT timeout 600 /venv/bin/python "$SRC/demo.py" >/tmp/demo_mut.log 2>&1; RC_MUT=$?
git checkout -q -- .; git clean -fdq
echo "$NAME: tests[$T] demo_with_change=$RC_MUT demo_without=$RC_CLEAN"
case "$T" in *"94 passed"*) ;; *) echo "  -> tests do not pass"; exit 4;; esac
if [ $RC_MUT -ne 0 ] && [ $RC_CLEAN -eq 0 ]; then
  mkdir -p /verif/seeded/$NAME; cp "$SRC/patch.diff" "$SRC/demo.py" /verif/seeded/$NAME/
  python3 - "$SRC/meta.json" /verif/seeded/$NAME/meta.json "$T" $RC_MUT $RC_CLEAN <<'PY'
import json,sys
m=json.load(open(sys.argv[1]))
m['confirmed']={'repo_head':__import__('subprocess').check_output(['git','-C','/repo','rev-parse','--short','HEAD']).decode().strip(),
 'tests_with_change':sys.argv[3],'demo_exit_with_change':int(sys.argv[4]),'demo_exit_without':int(sys.argv[5]),
 'how':'tools/confirm_seed.sh in scratch worktree /tmp/wt_confirm (removed afterwards)'}
json.dump(m,open(sys.argv[2],'w'),indent=1)
PY
  echo "  -> stored"
else echo "  -> NOT confirmed"; exit 5; fi
