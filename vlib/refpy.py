"""Expected Python API of a generated pybind11 module, as records computed from the
*instantiated model* (vlib.refinst.expected) and the option set.  No gtwrap import.

Records (tuples):
  ('submodule', var, parent_var, name)
  ('class', module_var, pyname, cpp, parent_cpp|None)
  ('init', class_pyname, (types...), ((argname, default|None)...))
  ('def', class_pyname, pyname, static:bool, (types...), ((argname, default)...))
  ('prop', class_pyname, name, readonly:bool)
  ('op', class_pyname, spelling)
  ('pickle', class_pyname)
  ('enum', scope_var, pyname, cpp, (enumerators...))
  ('attr', module_var, name)
  ('func', module_var, pyname, (types...), ((argname, default)...))
"""
from __future__ import annotations

import keyword
from typing import List, Sequence, Tuple

from . import model as M
from .refinst import alts, nows

IPYTHON = ["svg", "png", "jpeg", "html", "javascript", "markdown", "latex"]
PY_KEYWORDS = set(keyword.kwlist)


def modvar(ns: Sequence[str], top: Sequence[str]) -> str:
    return 'm_' + '_'.join(ns[len(top):])


def _args(args):
    return tuple((a[1], None if a[2] is None else nows(a[2])) for a in args)


def _types(args, this):
    out = []
    for a in args:
        # `This::X` spellings: take the documented (unqualified) one; see refinst.alts
        out.append(sorted(alts(a[0], this[0], this[1]))[0] if this else a[0])
    return tuple(out)


def py_method_name(name: str) -> str:
    if name in IPYTHON:
        name = '_repr_%s_' % name
    if name in PY_KEYWORDS:
        name += '_'
    return name


def class_records(c: dict, mvar: str, boost: bool) -> List[tuple]:
    out = []
    this = c.get('this')
    name = c['name']
    parent = c['parent']
    if parent is not None and this:
        parent = sorted(alts(parent, this[0], this[1]))[0]
    out.append(('class', mvar, name, c['cpp'], parent))
    for k in c['ctors']:
        out.append(('init', name, _types(k['args'], this), _args(k['args'])))
    for grp, static in (('methods', False), ('statics', True)):
        for m in c[grp]:
            base = m['cpp']  # a templated member of that name is an ordinary method
            if base in ('serialize', 'serializable'):
                if boost:
                    out.append(('def', name, 'serialize', False, (), ()))
                    out.append(('def', name, 'deserialize', False, ('string',),
                                (('serialized', None),)))
                    out.append(('pickle', name))
                continue
            pyname = m['name']
            if base in IPYTHON:
                pyname = '_repr_%s_' % base
            if pyname in PY_KEYWORDS:
                pyname += '_'
            out.append(('def', name, pyname, static, _types(m['args'], this), _args(m['args'])))
            if m['name'] == 'print':
                out.append(('def', name, '__repr__', False, _types(m['args'], this),
                            _args(m['args'])))
    for d in c['dunders']:
        out.append(('def', name, '__%s__' % d['name'], False, _types(d['args'], this),
                    _args(d['args'])))
    for p in c['props']:
        out.append(('prop', name, p[1], p[0].startswith('const')))
    for o in c['ops']:
        if o['op'] == '[]':
            out.append(('op', name, '__getitem__'))
        elif o['op'] == '()':
            out.append(('op', name, '__call__'))
        elif not o['args']:
            out.append(('op', name, o['op'] + 'py::self'))
        else:
            out.append(('op', name, 'py::self' + o['op'] + 'py::self'))
    for ename, evals in c['enums']:
        out.append(('enum', name.lower(), ename, nows(c['cpp'] + '::' + ename), tuple(evals)))
    return out


def expected_records(items: List[dict], top: Sequence[str] = (), ignore=(), boost=False):
    """items = refinst.expected(model); top = top namespace path without the leading ''."""
    top_ns = ('',) + tuple(top)
    ignore = {nows(i) for i in ignore}
    out: List[tuple] = []

    def walk(scope, ns):
        for i in range(min(len(ns), len(top_ns))):
            if ns[i] != top_ns[i]:
                return
        if len(ns) < len(top_ns):
            for it in scope:
                if it['k'] == 'ns':
                    walk(it['items'], ns + (it['name'],))
            return
        mvar = modvar(ns, top_ns)
        if len(ns) > len(top_ns):
            out.append(('submodule', mvar, modvar(ns[:-1], top_ns), ns[-1]))
        funcs = []
        for it in scope:
            k = it['k']
            if k == 'ns':
                walk(it['items'], ns + (it['name'],))
            elif k == 'class':
                if nows(it['cpp']) in ignore:
                    continue
                cns = ('',) + tuple(it['path'])
                out.extend(class_records(it, modvar(cns, top_ns), boost))
            elif k == 'decl':
                if nows(it['cpp']) in ignore:
                    continue
                cns = ('',) + tuple(it['path'])
                out.append(('class', modvar(cns, top_ns), it['name'], it['cpp'], None))
            elif k == 'func':
                funcs.append(it)
            elif k == 'pass':
                x = it['item']
                if isinstance(x, M.Var):
                    out.append(('attr', mvar, x.name))
                elif isinstance(x, M.Enum):
                    cpp = '::'.join(ns[1:] + (x.name,))
                    out.append(('enum', mvar, x.name, nows(cpp), tuple(x.enumerators)))
        for f in funcs:
            pyname = f['name']
            if pyname in PY_KEYWORDS or pyname == 'print':
                pyname += '_'
            out.append(('func', mvar, pyname, tuple(a[0] for a in f['args']), _args(f['args'])))

    walk(items, ('',))
    return out
