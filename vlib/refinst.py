"""Reference template instantiation on the model (no gtwrap import, no string replacement).

expected(module) -> nested structure of plain dicts/lists describing the instantiated module:
every scope is a list of items
  {'k': 'ns', 'name', 'items': [...]}
  {'k': 'class', 'name', 'cpp', 'path', 'parent', 'virtual', 'ctors', 'methods', 'statics',
   'props', 'ops', 'enums', 'dunders', 'from_typedef': bool}
  {'k': 'func', 'name', 'cpp', 'ret', 'args', 'from_typedef': bool}
  {'k': 'decl', 'name', 'cpp'}            (typedef of a forward-declared foreign template)
  {'k': 'pass', 'item': <model item>}      (include, forward declaration, enum, variable)
C++ spellings are canonical strings with all whitespace removed (see nows()).
"""
from __future__ import annotations

import itertools
import re
from typing import Dict, List, Optional, Sequence, Tuple

from . import model as M


def nows(s: str) -> str:
    return re.sub(r'\s+', '', s)


class RefError(Exception):
    """The model is outside the domain on which instantiation is defined."""


THIS = '\x01'  # stands for the instantiated class in a `This::X` scope (see alts())


def cpp_typename(t: M.Type) -> str:
    """Spelling of a concrete type without qualifiers: ns::Name<args>."""
    s = '::'.join(t.ns + (t.name,))
    if t.targs:
        s += '<' + ','.join(cpp_typename(a) for a in t.targs) + '>'
    return nows(s)


def alts(spelling, this_unq, this_full):
    """Acceptable spellings of an expected type: DOCS.md documents `This::X` as the
    *unqualified* class (users write gtsam::This::X); inside template arguments the code has
    always used the fully qualified class.  Both denote the instantiated class."""
    if spelling is None or THIS not in spelling:
        return {spelling}
    return {spelling.replace(THIS, this_unq), spelling.replace(THIS, this_full)}


def inst_name(t: M.Type) -> str:
    """Name fragment contributed by a template argument: its name followed by the fragments of
    its own arguments; namespaces do not take part."""
    return t.name + ''.join(inst_name(a) for a in t.targs)


def cap_first(s: str) -> str:
    return s[:1].upper() + s[1:]


def instantiated_name(base: str, args: Sequence[M.Type]) -> str:
    return base + ''.join(cap_first(inst_name(a)) for a in args)


def _qual(t: M.Type, base: str) -> str:
    if t.ptr == '*':
        base = 'std::shared_ptr<' + base + '>'
    elif t.ptr == '@':
        base += '*'
    elif t.ptr == '&':
        base += '&'
    return nows(('const' if t.const else '') + base)


def subst_cpp(t: M.Type, env: Dict[str, M.Type], this: Optional[str]) -> str:
    """Canonical C++ spelling of declared type t after exact, capture-free substitution.

    A node is a parameter occurrence iff it has no namespace prefix, no template arguments and
    its name equals a parameter; a scoped use T::X is a node whose *first* namespace component
    equals a parameter.  `This` / `This::X` are treated the same way with the instantiated class.
    """
    if not t.ns and not t.targs and t.name in env:
        return _qual(t, cpp_typename(env[t.name]))
    if not t.ns and not t.targs and t.name == 'This' and this is not None:
        return _qual(t, this)
    ns = list(t.ns)
    if ns and ns[0] in env:
        ns[0] = cpp_typename(env[ns[0]])
    elif ns and ns[0] == 'This' and this is not None:
        ns[0] = THIS
    s = '::'.join(ns + [t.name])
    if t.targs:
        s += '<' + ','.join(subst_cpp(a, env, this) for a in t.targs) + '>'
    return _qual(t, s)


def _args(args, env, this):
    return [(subst_cpp(a.type, env, this), a.name, a.default) for a in args]


def _ret(r: M.Ret, env, this):
    return (subst_cpp(r.t1, env, this), subst_cpp(r.t2, env, this) if r.t2 else None)


def _member_products(template: Optional[M.Template]):
    """All instantiation tuples of a member-level template (first parameter slowest)."""
    if template is None:
        return [None]
    return [list(c) for c in itertools.product(*[p.insts for p in template.params])]


def inst_class(c: M.Class, path: Tuple[str, ...], args: Sequence[M.Type], new_name: str = '',
               from_typedef=False) -> dict:
    if c.template is not None and len(c.template.params) != len(args):
        raise RefError('template arity mismatch for %s' % c.name)
    names = c.template.names() if c.template else []
    env = dict(zip(names, args))
    cpp = '::'.join(path + (c.name,))
    if c.template is not None:
        cpp += '<' + ','.join(cpp_typename(a) for a in args) + '>'
    cpp = nows(cpp)
    this = cpp
    name = new_name or instantiated_name(c.name, args)
    unq = c.name
    if c.template is not None:
        unq += '<' + ','.join(cpp_typename(a) for a in args) + '>'
    out = {'k': 'class', 'name': name, 'cpp': cpp, 'path': list(path), 'virtual': c.virtual,
           'this': (nows(unq), nows(cpp)),
           'from_typedef': from_typedef, 'ctors': [], 'methods': [], 'statics': [], 'props': [],
           'ops': [], 'enums': [], 'dunders': []}
    out['parent'] = subst_cpp(c.parent, env, this) if c.parent is not None else None
    for m in c.members:
        if isinstance(m, M.Ctor):
            for margs in _member_products(m.template):
                e = dict(env)
                if margs is not None:
                    e.update(zip(m.template.names(), margs))
                out['ctors'].append({
                    'name': name,
                    'cpp': m.name if margs is None else
                    m.name + '<' + ','.join(cpp_typename(a) for a in margs) + '>',
                    'args': _args(m.args, e, this)})
        elif isinstance(m, (M.Method, M.Static)):
            for margs in _member_products(m.template):
                e = dict(env)
                if margs is not None:
                    e.update(zip(m.template.names(), margs))
                d = {'name': m.name if margs is None else instantiated_name(m.name, margs),
                     'cpp': m.name if margs is None else
                     m.name + '<' + ','.join(cpp_typename(a) for a in margs) + '>',
                     'ret': _ret(m.ret, e, this), 'args': _args(m.args, e, this)}
                if isinstance(m, M.Method):
                    d['const'] = m.const
                    out['methods'].append(d)
                else:
                    out['statics'].append(d)
        elif isinstance(m, M.Prop):
            out['props'].append((subst_cpp(m.type, env, this), m.name, m.default))
        elif isinstance(m, M.Operator):
            out['ops'].append({'op': m.op, 'ret': _ret(m.ret, env, this),
                               'args': _args(m.args, env, this), 'const': m.const})
        elif isinstance(m, M.Enum):
            out['enums'].append((m.name, list(m.enumerators)))
        elif isinstance(m, M.Dunder):
            out['dunders'].append({'name': m.name, 'args': _args(m.args, env, this)})
    return out


def inst_func(f: M.Func, path, args: Sequence[M.Type], new_name='', from_typedef=False) -> dict:
    if f.template is None:
        return {'k': 'func', 'name': f.name, 'cpp': f.name, 'path': list(path),
                'from_typedef': False, 'ret': _ret(f.ret, {}, None),
                'args': _args(f.args, {}, None)}
    if len(f.template.params) != len(args):
        raise RefError('template arity mismatch for %s' % f.name)
    env = dict(zip(f.template.names(), args))
    return {'k': 'func', 'name': new_name or instantiated_name(f.name, args),
            'cpp': f.name + '<' + ','.join(cpp_typename(a) for a in args) + '>',
            'path': list(path), 'from_typedef': from_typedef,
            'ret': _ret(f.ret, env, None), 'args': _args(f.args, env, None)}


def find_target(module: M.Module, t: M.Type):
    """Resolve a typedef target spelled from the global scope -> (path, item)."""
    scopes = [((), module)]
    for comp in t.ns:
        nxt = []
        for path, sc in scopes:
            for it in sc.content:
                if isinstance(it, M.Namespace) and it.name == comp:
                    nxt.append((path + (comp,), it))
        scopes = nxt
    res = []
    for path, sc in scopes:
        for it in sc.content:
            if isinstance(it, (M.Class, M.Func)) and it.name == t.name:
                res.append((path, it))
            elif isinstance(it, M.Fwd) and it.name.name == t.name:
                res.append((path, it))
    if len(res) != 1:
        raise RefError('typedef target %s resolves to %d declarations' % (cpp_typename(t),
                                                                          len(res)))
    return res[0]


def expected_scope(module: M.Module, scope, path: Tuple[str, ...]) -> List[dict]:
    out: List[dict] = []
    tds: List[dict] = []
    for it in scope.content:
        if isinstance(it, M.Namespace):
            out.append({'k': 'ns', 'name': it.name,
                        'items': expected_scope(module, it, path + (it.name,))})
        elif isinstance(it, M.Class):
            if it.template is None:
                out.append(inst_class(it, path, ()))
            else:
                for combo in itertools.product(*[p.insts for p in it.template.params]):
                    out.append(inst_class(it, path, list(combo)))
        elif isinstance(it, M.Func):
            if it.template is None:
                out.append(inst_func(it, path, ()))
            else:
                for combo in itertools.product(*[p.insts for p in it.template.params]):
                    out.append(inst_func(it, path, list(combo)))
        elif isinstance(it, M.Typedef):
            tpath, target = find_target(module, M.Type(it.type.ns, it.type.name))
            args = list(it.type.targs)
            if isinstance(target, M.Class):
                tds.append(inst_class(target, tpath, args, it.name, True))
            elif isinstance(target, M.Func):
                tds.append(inst_func(target, tpath, args, it.name, True))
            else:
                cpp = '::'.join(tpath + (target.name.name,)) + '<' + \
                    ','.join(cpp_typename(a) for a in args) + '>'
                tds.append({'k': 'decl', 'name': it.name, 'cpp': cpp, 'path': list(tpath),
                            'from_typedef': True})
        else:
            out.append({'k': 'pass', 'item': it})
    return out + tds


def expected(module: M.Module) -> List[dict]:
    return expected_scope(module, module, ())
