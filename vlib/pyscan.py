"""Scanner for generated pybind11 translation units: text -> statements -> binding records.

Knows C++ lexical structure only as far as needed (strings, chars, (), {}, [], <> in type
position) and the statement shapes pybind11 bindings have.  Never sees the model.
"""
from __future__ import annotations

import re
from dataclasses import dataclass, field
from typing import List, Optional, Tuple


class ScanError(Exception):
    pass


def _skip_quote(s: str, i: int) -> int:
    """s[i] is a quote char; return index just past the closing quote."""
    q = s[i]
    j = i + 1
    while j < len(s):
        c = s[j]
        if c == '\\':
            j += 2
            continue
        if c == q:
            return j + 1
        if c == '\n' and q == "'":
            break
        j += 1
    raise ScanError('unterminated %s literal at %d: %r' % (q, i, s[i:i + 40]))


def split_top(s: str, sep: str = ',', angles: bool = False) -> List[str]:
    """Split s at sep characters that are outside (), {}, [] (and <> if angles) and literals."""
    out, depth, start, i = [], 0, 0, 0
    adepth = 0
    while i < len(s):
        c = s[i]
        if c in '"\'':
            i = _skip_quote(s, i)
            continue
        if c in '({[':
            depth += 1
        elif c in ')}]':
            depth -= 1
            if depth < 0:
                raise ScanError('unbalanced %r in %r' % (c, s[:80]))
        elif angles and c == '<':
            adepth += 1
        elif angles and c == '>' and adepth > 0 and s[i - 1] != '-':
            adepth -= 1
        elif c == sep and depth == 0 and adepth == 0:
            out.append(s[start:i])
            start = i + 1
        i += 1
    if depth != 0:
        raise ScanError('unbalanced brackets in %r' % s[:80])
    out.append(s[start:])
    return out


def match_close(s: str, i: int) -> int:
    """s[i] is an opening bracket; return index of its partner (quote aware)."""
    pairs = {'(': ')', '{': '}', '[': ']', '<': '>'}
    o = s[i]
    c = pairs[o]
    depth = 0
    j = i
    while j < len(s):
        ch = s[j]
        if ch in '"\'' and o != '<':
            j = _skip_quote(s, j)
            continue
        if o == '<':
            if ch == '<':
                depth += 1
            elif ch == '>':
                depth -= 1
                if depth == 0:
                    return j
        else:
            if ch in '({[':
                depth += 1
            elif ch in ')}]':
                depth -= 1
                if depth == 0:
                    if ch != c:
                        raise ScanError('mismatched bracket %r for %r' % (ch, o))
                    return j
        j += 1
    raise ScanError('no closing %r in %r' % (c, s[i:i + 60]))


def nows(s: str) -> str:
    return re.sub(r'\s+', '', s)


@dataclass
class Arg:
    name: str
    default: Optional[str]


@dataclass
class Call:
    """One chained call .def(...) etc. on a class / module."""
    kind: str            # init | def | def_static | def_readwrite | def_readonly | op | pickle | value
    pyname: str = ''
    lam_params: List[Tuple[str, str]] = field(default_factory=list)  # (type, name) incl. self
    body: str = ''
    pyargs: List[Arg] = field(default_factory=list)
    doc: Optional[str] = None     # raw C++ literal text of the trailing docstring, if any
    init_types: List[str] = field(default_factory=list)
    target: str = ''              # &Class::member, py::self expression, enumerator value
    raw: str = ''


@dataclass
class Stmt:
    kind: str   # submodule | class | classvar | chain | enum | attr | func | other
    var: str = ''          # module / scope variable the statement acts on
    newvar: str = ''       # variable introduced (submodule var, class instance var)
    pyname: str = ''
    cpp: str = ''          # C++ type of class / enum (whitespace stripped)
    holder: List[str] = field(default_factory=list)  # remaining class_ template args
    calls: List[Call] = field(default_factory=list)
    value: str = ''
    parent_name: str = ''
    raw: str = ''


_PYARG = re.compile(r'py::arg\("((?:[^"\\]|\\.)*)"\)')


def parse_pyargs(rest: str) -> Tuple[List[Arg], Optional[str]]:
    """rest = text after the callable inside .def(...), starting with ',' or empty."""
    args: List[Arg] = []
    doc = None
    # positions of py::arg at bracket depth 0
    pos = []
    depth, i = 0, 0
    while i < len(rest):
        c = rest[i]
        if c in '"\'':
            i = _skip_quote(rest, i)
            continue
        if c in '({[':
            depth += 1
        elif c in ')}]':
            depth -= 1
        elif depth == 0 and rest.startswith('py::arg("', i):
            pos.append(i)
            i += 7  # continue at the '(' of py::arg(
            continue
        i += 1
    if not pos:
        tail = rest.strip()
        if tail.startswith(','):
            tail = tail[1:].strip()
        if tail:
            doc = tail
        return args, doc
    head = rest[:pos[0]].strip()
    if head not in (',', ''):
        raise ScanError('unexpected text before first py::arg: %r' % head)
    for k, p in enumerate(pos):
        end = pos[k + 1] if k + 1 < len(pos) else len(rest)
        seg = rest[p:end]
        m = _PYARG.match(seg)
        if not m:
            raise ScanError('bad py::arg in %r' % seg[:60])
        after = seg[m.end():].strip()
        last = k + 1 == len(pos)
        default = None
        if last:
            # the last segment may carry a trailing docstring: ..., "text"
            parts = split_top(after, ',', angles=False)
            # a default may itself contain top-level commas only inside <>; the docstring is
            # the final part when it is a string literal and there is more than one part
            if len(parts) > 1 and parts[-1].strip().startswith('"') and \
                    not after.lstrip().startswith('='):
                doc = parts[-1].strip()
                after = ','.join(parts[:-1]).strip()
            elif len(parts) > 1 and parts[-1].strip().startswith('"') and \
                    after.lstrip().startswith('='):
                cand = ','.join(parts[:-1]).strip()
                # default followed by a docstring literal
                if _balanced_angles(cand):
                    doc = parts[-1].strip()
                    after = cand
        if after.endswith(','):
            after = after[:-1].rstrip()
        if after.startswith('='):
            default = after[1:].strip()
        elif after:
            raise ScanError('unexpected text after py::arg("%s"): %r' % (m.group(1), after[:60]))
        args.append(Arg(m.group(1), default))
    return args, doc


def _balanced_angles(s: str) -> bool:
    d = 0
    i = 0
    while i < len(s):
        c = s[i]
        if c in '"\'':
            i = _skip_quote(s, i)
            continue
        if c == '<':
            d += 1
        elif c == '>' and (i == 0 or s[i - 1] != '-'):
            d -= 1
        i += 1
    return d == 0


def parse_params(s: str) -> List[Tuple[str, str]]:
    s = s.strip()
    if not s:
        return []
    out = []
    for p in split_top(s, ',', angles=True):
        p = p.strip()
        m = re.match(r'^(.*?)([A-Za-z_][A-Za-z0-9_]*)$', p, re.S)
        if not m:
            raise ScanError('cannot split parameter %r' % p)
        out.append((nows(m.group(1)), m.group(2)))
    return out


def parse_call(name: str, inside: str, raw: str) -> Call:
    """name = def/def_static/...; inside = text between the call's parentheses."""
    s = inside.strip()
    if name in ('def_readwrite', 'def_readonly'):
        parts = split_top(s, ',', angles=True)
        if len(parts) != 2:
            raise ScanError('property binding with %d arguments: %r' % (len(parts), s[:80]))
        return Call(name, pyname=_strlit(parts[0]), target=nows(parts[1]), raw=raw)
    if name == 'value':
        parts = split_top(s, ',', angles=True)
        return Call('value', pyname=_strlit(parts[0]), target=nows(','.join(parts[1:])), raw=raw)
    if s.startswith('py::init<'):
        close = match_close(s, s.index('<'))
        types = s[s.index('<') + 1:close]
        rest = s[close + 1:].lstrip()
        if not rest.startswith('()'):
            raise ScanError('py::init<...> not followed by (): %r' % rest[:30])
        pa, doc = parse_pyargs(rest[2:])
        its = [nows(t) for t in split_top(types, ',', angles=True)] if types.strip() else []
        return Call('init', init_types=its, pyargs=pa, doc=doc, raw=raw)
    if s.startswith('py::pickle('):
        return Call('pickle', raw=raw)
    if s.startswith('py::self') or re.match(r'^[-+]\s*py::self', s):
        return Call('op', target=nows(s), raw=raw)
    # .def("name", <callable>, py::arg...)
    if not s.startswith('"'):
        raise ScanError('unrecognised binding %r' % s[:80])
    end = _skip_quote(s, 0)
    pyname = s[1:end - 1]
    rest = s[end:].lstrip()
    if not rest.startswith(','):
        raise ScanError('binding %r has no callable' % pyname)
    rest = rest[1:].lstrip()
    if rest.startswith('[]'):
        po = rest.index('(')
        pc = match_close(rest, po)
        params = parse_params(rest[po + 1:pc])
        bo = rest.index('{', pc)
        bc = match_close(rest, bo)
        body = rest[bo + 1:bc].strip()
        pa, doc = parse_pyargs(rest[bc + 1:])
        return Call(name, pyname=pyname, lam_params=params, body=body, pyargs=pa, doc=doc,
                    raw=raw)
    if rest.startswith('&'):
        parts = split_top(rest, ',')
        return Call(name, pyname=pyname, target=nows(parts[0]), raw=raw)
    raise ScanError('unrecognised callable in binding %r: %r' % (pyname, rest[:60]))


def _strlit(s: str) -> str:
    s = s.strip()
    if len(s) < 2 or s[0] != '"' or s[-1] != '"':
        raise ScanError('string literal expected: %r' % s[:60])
    return s[1:-1]


def parse_chain(s: str) -> List[Call]:
    """s = '.def(...)\n .def(...)...' -> calls."""
    calls = []
    i = 0
    s = s.strip()
    while i < len(s):
        if s[i].isspace():
            i += 1
            continue
        m = re.match(r'\.\s*([A-Za-z_][A-Za-z0-9_]*)\s*\(', s[i:])
        if not m:
            raise ScanError('expected chained call at %r' % s[i:i + 60])
        po = i + m.end() - 1
        pc = match_close(s, po)
        calls.append(parse_call(m.group(1), s[po + 1:pc], s[i:pc + 1]))
        i = pc + 1
    return calls


def split_statements(body: str) -> List[str]:
    out = []
    for st in split_top(body, ';'):
        st = st.strip()
        if st:
            out.append(st)
    return out


def parse_statement(st: str, classvars) -> Stmt:
    m = re.match(r'^pybind11::module\s+(\w+)\s*=\s*(\w+)\.def_submodule\("(\w+)"\s*,\s*"[^"]*"\)$',
                 st)
    if m:
        return Stmt('submodule', var=m.group(2), newvar=m.group(1), pyname=m.group(3), raw=st)
    if st.startswith('py::class_<'):
        close = match_close(st, st.index('<'))
        targs = [nows(t) for t in split_top(st[st.index('<') + 1:close], ',', angles=True)]
        rest = st[close + 1:].lstrip()
        m = re.match(r'^(\w+)?\s*\(\s*(\w+)\s*,\s*"(\w+)"\s*\)', rest)
        if not m:
            raise ScanError('bad py::class_ head: %r' % rest[:80])
        chain = rest[m.end():]
        s = Stmt('classvar' if m.group(1) else 'class', var=m.group(2), newvar=m.group(1) or '',
                 pyname=m.group(3), cpp=targs[0], holder=targs[1:], raw=st)
        s.calls = parse_chain(chain) if chain.strip() else []
        return s
    if st.startswith('py::enum_<'):
        close = match_close(st, st.index('<'))
        cpp = nows(st[st.index('<') + 1:close])
        rest = st[close + 1:].lstrip()
        po = rest.index('(')
        pc = match_close(rest, po)
        parts = split_top(rest[po + 1:pc], ',')
        s = Stmt('enum', var=parts[0].strip(), pyname=_strlit(parts[1]), cpp=cpp, raw=st)
        s.calls = parse_chain(rest[pc + 1:]) if rest[pc + 1:].strip() else []
        return s
    m = re.match(r'^(\w+)\.attr\("(\w+)"\)\s*=\s*(.*)$', st, re.S)
    if m:
        return Stmt('attr', var=m.group(1), pyname=m.group(2), value=m.group(3).strip(), raw=st)
    if re.match(r'^\w+$', st) and st in classvars:
        return Stmt('chain', var=st, raw=st)  # class with enums but no members: `name;`
    m = re.match(r'^(\w+)\s*(\.\s*\w+\s*\(.*)$', st, re.S)
    if m:
        var = m.group(1)
        s = Stmt('chain' if var in classvars else 'func', var=var, raw=st)
        s.calls = parse_chain(m.group(2))
        return s
    return Stmt('other', raw=st)


def scan_body(body: str) -> List[Stmt]:
    """wrapped-namespace text (the inside of the module function) -> statements."""
    out = []
    classvars = set()
    for st in split_statements(body):
        s = parse_statement(st, classvars)
        if s.kind == 'classvar':
            classvars.add(s.newvar)
        out.append(s)
    return out


BODY_BEGIN = '// VERIF-BODY-BEGIN'
BODY_END = '// VERIF-BODY-END'


def extract_body(tu: str) -> str:
    """Body between the markers our module template places around {wrapped_namespace}."""
    a = tu.index(BODY_BEGIN) + len(BODY_BEGIN)
    b = tu.rindex(BODY_END)
    return tu[a:b]
