"""MATLAB-object emulator driving a compiled MEX gateway (C11).

Runs as a stand-alone process:  python -m vlib.matlab_emu job.json out.json
It plays the role of the MATLAB session that uses only the generated .m files: the protocol
(ids, guards, pointer-key path, base-class chains, delete order) is taken from the generated
files themselves through vlib.matscan; the gateway is the compiled <module>_wrapper.cpp with the
unmodified matlab.h on the mock MEX runtime.
"""
from __future__ import annotations

import ctypes
import json
import re
import sys

KEY = 5139824614673773682


class MatlabError(Exception):
    pass


class Obj:
    """A MATLAB handle object of a generated class."""
    _n = 0

    def __init__(self, cls):
        Obj._n += 1
        self.n = Obj._n
        self.cls = cls
        self.mx = None
        self.alive = True


class Emu:
    def __init__(self, so, tree, module, parents):
        from . import matscan
        self.module = module
        self.files, self.wrapper = matscan.scan_toolbox(tree, module)
        self.by_class = {}
        for p, mf in self.files.items():
            if mf.kind == 'classdef':
                self.by_class[p[:-2].replace('+', '').replace('/', '.')] = mf
            elif mf.kind == 'function':
                self.by_class['FUNC:' + p[:-2].replace('+', '').replace('/', '.')] = mf
        self.parents = parents  # matlab class -> matlab parent class or None
        L = ctypes.CDLL(so)
        self.L = L
        vp = ctypes.c_void_p
        for name, res, args in [
            ('emu_double', vp, [ctypes.c_double]), ('emu_logical', vp, [ctypes.c_int]),
            ('emu_string', vp, [ctypes.c_char_p]), ('emu_uint64', vp, [ctypes.c_ulonglong]),
            ('emu_object', vp, [ctypes.c_char_p]), ('emu_set_prop', None, [vp, ctypes.c_char_p, vp]),
            ('emu_get_prop', vp, [vp, ctypes.c_char_p]), ('emu_dup', vp, [vp]),
            ('emu_free', None, [vp]), ('emu_class', ctypes.c_char_p, [vp]),
            ('emu_classid', ctypes.c_int, [vp]), ('emu_scalar', ctypes.c_double, [vp]),
            ('emu_u64', ctypes.c_ulonglong, [vp]), ('emu_is_enum', ctypes.c_int, [vp]),
            ('emu_numel', ctypes.c_ulong, [vp]),
            ('emu_string_of', ctypes.c_int, [vp, ctypes.c_char_p, ctypes.c_int]),
            ('emu_run_atexit', None, []), ('emu_atexit_registered', ctypes.c_ulong, []),
            ('v_live', ctypes.c_long, []), ('v_collector_size', ctypes.c_long, [ctypes.c_char_p]),
            ('v_trace_take', ctypes.c_int, [ctypes.c_char_p, ctypes.c_int]),
        ]:
            f = getattr(L, name)
            f.restype = res
            f.argtypes = args
        L.emu_call.restype = ctypes.c_int
        L.emu_call.argtypes = [ctypes.c_int, ctypes.POINTER(vp), ctypes.c_int, ctypes.POINTER(vp),
                               ctypes.c_char_p, ctypes.c_int]
        self.HANDLER = ctypes.CFUNCTYPE(ctypes.c_int, ctypes.c_int, ctypes.POINTER(vp),
                                        ctypes.c_int, ctypes.POINTER(vp), ctypes.c_char_p)
        self._cb = self.HANDLER(self._callback)
        L.emu_set_handler(self._cb)
        self.objs = {}       # id(mx pointer value) -> Obj
        self.cb_error = None

    # ---------------------------------------------------------------- low level
    def mex(self, fid, args, nlhs):
        L = self.L
        n = len(args) + 1
        arr = (ctypes.c_void_p * n)()
        idmx = L.emu_double(float(fid))
        arr[0] = idmx
        for i, a in enumerate(args):
            arr[i + 1] = a
        out = (ctypes.c_void_p * max(nlhs, 1))()
        err = ctypes.create_string_buffer(2048)
        rc = L.emu_call(nlhs, out, n, arr, err, 2048)
        L.emu_free(idmx)
        if rc != 0:
            raise MatlabError(err.value.decode('utf-8', 'replace'))
        if self.cb_error:
            e, self.cb_error = self.cb_error, None
            raise MatlabError('in MATLAB constructor called from C++: ' + e)
        return [out[i] for i in range(nlhs)]

    def trace(self):
        buf = ctypes.create_string_buffer(1 << 16)
        self.L.v_trace_take(buf, 1 << 16)
        s = buf.value.decode('utf-8', 'replace')
        return s.split('\n') if s else []

    # ---------------------------------------------------------------- MATLAB semantics
    def isa(self, mx, tname):
        L = self.L
        cid = L.emu_classid(mx)
        cls = L.emu_class(mx).decode()
        if tname == 'numeric':
            return cid in (6, 7, 8, 9, 10, 11, 12, 13, 14, 15)
        if tname == 'double':
            return cid == 6
        if tname == 'logical':
            return cid == 3
        if tname == 'char':
            return cid == 4
        if tname == 'uint64':
            return cid == 15
        c = cls
        while c:
            if c == tname:
                return True
            c = self.parents.get(c)
        return False

    def guard_holds(self, site, args):
        if site.nargs is not None and site.nargs != len(args):
            return False
        for pos, t in site.isa:
            if pos > len(args) or not self.isa(args[pos - 1], t):
                return False
        return True

    def _init_levels(self, obj, cls, args):
        """Run the constructor of `cls` (and, through obj@Parent, of its ancestors) on obj."""
        mf = self.by_class.get(cls)
        if mf is None:
            raise MatlabError('Undefined class %s' % cls)
        L = self.L
        sites = [s for s in mf.sites if s.function == mf.name]
        coll = [s for s in sites if s.role == 'collector']
        upc = [s for s in sites if s.role == 'upcast']
        ctors = [s for s in sites if s.role == 'constructor']
        has_parent = self.parents.get(cls) is not None
        key_path = len(args) >= 2 and L.emu_classid(args[0]) == 15 and \
            L.emu_u64(args[0]) == KEY and (len(args) == 2 or (
                len(args) == 3 and upc and L.emu_classid(args[2]) == 4))
        base_ptr = None
        if key_path:
            if len(args) == 2:
                my_ptr = L.emu_dup(args[1])
            else:
                my_ptr = self.mex(upc[0].id, [args[1]], 1)[0]
            if not coll:
                raise MatlabError('no collector call site in %s' % cls)
            outs = self.mex(coll[0].id, [my_ptr], 1 if has_parent else 0)
            if has_parent:
                base_ptr = outs[0]
        else:
            for s in ctors:
                if self.guard_holds(s, args):
                    outs = self.mex(s.id, list(args), 2 if has_parent else 1)
                    my_ptr = outs[0]
                    if has_parent:
                        base_ptr = outs[1]
                    obj.branch = (cls, s.id)
                    break
            else:
                raise MatlabError('Arguments do not match any overload of %s constructor' % cls)
        if has_parent:
            keymx = L.emu_uint64(KEY)
            try:
                self._init_levels(obj, self.parents[cls], [keymx, base_ptr])
            finally:
                L.emu_free(keymx)
                L.emu_free(base_ptr)
        L.emu_set_prop(obj.mx, mf.ptr_property.encode(), my_ptr)
        obj.levels.append(cls)

    def construct(self, cls, args):
        obj = Obj(cls)
        obj.levels = []
        obj.mx = self.L.emu_object(cls.encode())
        self._init_levels(obj, cls, args)
        self.objs[obj.mx] = obj
        return obj

    def _callback(self, nlhs, plhs, nrhs, prhs, name):
        try:
            cls = name.decode()
            if cls not in self.by_class:
                return 0
            args = [prhs[i] for i in range(nrhs)]
            obj = self.construct(cls, args)
            plhs[0] = obj.mx
            return 1
        except BaseException as e:  # never let an exception cross the C boundary
            self.cb_error = '%s: %s' % (type(e).__name__, e)
            dummy = self.L.emu_object(b'ERROR')
            plhs[0] = dummy
            return 1

    def find_function(self, cls, fname, static):
        c = cls
        while c:
            mf = self.by_class.get(c)
            if mf and any(f == fname and st == static for f, st in mf.functions):
                return mf
            c = self.parents.get(c)
        return None

    def dispatch(self, mf, fname, role, args, this=None):
        """Take the first branch of function fname whose guard holds."""
        sites = [s for s in mf.sites if s.function == fname and s.role == role]
        for s in sites:
            if self.guard_holds(s, args):
                full = ([this.mx] if this is not None else []) + list(args)
                outs = self.mex(s.id, full, s.nout)
                return s, outs
        raise MatlabError('Arguments do not match any overload of function %s' % fname)

    def delete(self, obj):
        """MATLAB destroys a handle object: delete of the class, then of each ancestor."""
        c = obj.cls
        while c:
            mf = self.by_class[c]
            for s in mf.sites:
                if s.role == 'delete':
                    ptr = self.L.emu_get_prop(obj.mx, mf.ptr_property.encode())
                    self.mex(s.id, [ptr], 0)
            c = self.parents.get(c)
        obj.alive = False
        self.objs.pop(obj.mx, None)
        self.L.emu_free(obj.mx)

    # ---------------------------------------------------------------- values
    def enc(self, v, env):
        L = self.L
        t = v['t']
        if t in ('int', 'float'):
            return L.emu_double(float(v['v']))
        if t == 'bool':
            return L.emu_logical(1 if v['v'] else 0)
        if t == 'str':
            return L.emu_string(v['v'].encode())
        if t == 'obj':
            if not env[v['ref']].alive:
                raise MatlabError('Invalid or deleted object.')
            return env[v['ref']].mx
        raise ValueError(t)

    def dec(self, mx):
        L = self.L
        if not mx:
            return {'t': 'null'}
        if mx in self.objs:
            o = self.objs[mx]
            return {'t': 'instance', 'cls': o.cls, 'n': o.n}
        cid = L.emu_classid(mx)
        if L.emu_is_enum(mx):
            return {'t': 'enum', 'cls': L.emu_class(mx).decode(), 'v': L.emu_scalar(mx)}
        if cid == 4:
            buf = ctypes.create_string_buffer(4096)
            L.emu_string_of(mx, buf, 4096)
            return {'t': 'str', 'v': buf.value.decode('utf-8', 'replace')}
        if cid == 15:
            return {'t': 'u64', 'v': L.emu_u64(mx), 'numel': L.emu_numel(mx)}
        if cid == 6:
            return {'t': 'float', 'v': L.emu_scalar(mx), 'numel': L.emu_numel(mx)}
        return {'t': 'other', 'cls': L.emu_class(mx).decode()}


def _keep(emu, env, st, outs, results):
    """Returned objects become handles of the session; other outputs are freed."""
    stores = st.get('stores') or [None] * len(outs)
    for i, (x, d) in enumerate(zip(outs, results)):
        if d['t'] == 'instance':
            var = stores[i] if i < len(stores) and stores[i] else '_anon%d' % emu.objs[x].n
            env[var] = emu.objs[x]
        elif x:
            emu.L.emu_free(x)


def run(job):
    from . import matscan  # noqa
    emu = Emu(job['so'], job['tree'], job['module'], job['parents'])
    L = emu.L
    out = {'steps': [], 'final': {}}
    env = {}
    base_live = L.v_live()
    emu.trace()

    def snapshot():
        return {'live': L.v_live() - base_live,
                'collectors': {c: L.v_collector_size(c.encode()) for c in job['collectors']}}
    for st in job['steps']:
        rec = {'id': st['id']}
        tmp = []
        try:
            k = st['kind']
            args = []
            for a in st.get('args', []):
                mx = emu.enc(a, env)
                args.append(mx)
                if a['t'] != 'obj':
                    tmp.append(mx)
            if k == 'new':
                o = emu.construct(st['cls'], args)
                env[st['store']] = o
                rec['result'] = {'t': 'instance', 'cls': o.cls, 'n': o.n}
                rec['branch'] = getattr(o, 'branch', None)
            elif k in ('method', 'getter', 'setter'):
                o = env[st['obj']]
                if not o.alive:
                    rec['skipped'] = 'deleted'
                else:
                    role = k
                    mf = emu.find_function(o.cls, st['fname'], False)
                    if mf is None:
                        raise MatlabError('Undefined function %s for %s' % (st['fname'], o.cls))
                    site, outs = emu.dispatch(mf, st['fname'], role, args, this=o)
                    rec['site'] = site.id
                    rec['result'] = [emu.dec(x) for x in outs]
                    _keep(emu, env, st, outs, rec['result'])
            elif k in ('static', 'function'):
                key = st['cls'] if k == 'static' else 'FUNC:' + st['file']
                mf = emu.by_class.get(key)
                if mf is None:
                    raise MatlabError('Undefined %s' % key)
                site, outs = emu.dispatch(mf, st['fname'], k, args)
                rec['site'] = site.id
                rec['result'] = [emu.dec(x) for x in outs]
                _keep(emu, env, st, outs, rec['result'])
            elif k == 'delete':
                o = env.get(st['obj'])
                if o is None or not o.alive:
                    rec['skipped'] = 'deleted'
                else:
                    emu.delete(o)
            elif k == 'unload':
                L.emu_run_atexit()
        except MatlabError as e:
            rec['error'] = str(e)[:300]
        for mx in tmp:
            L.emu_free(mx)
        rec['trace'] = emu.trace()
        rec['state'] = snapshot()
        rec['handles'] = {n: (o.cls, o.levels) for n, o in env.items() if o.alive}
        out['steps'].append(rec)
    return out


if __name__ == '__main__':
    job = json.load(open(sys.argv[1]))
    res = run(job)
    json.dump(res, open(sys.argv[2], 'w'))
