"""gtwrap parse tree -> vlib.model values.  The only module that reads gtwrap node attributes
of the *parse* tree (the instantiated tree is read by vlib.instproj)."""
from __future__ import annotations

from typing import List, Tuple

from . import model as M


def _gt():
    import gtwrap.interface_parser as parser  # noqa
    return parser


def p_typename(tn) -> M.Type:
    """parser.Typename -> Type without qualifiers."""
    name = tn.name
    if not isinstance(name, str):  # instantiate_type stores a Typename in .name
        inner = p_typename(name)
        return M.Type(tuple(tn.namespaces) + inner.ns, inner.name,
                      inner.targs + tuple(p_typename(i) for i in tn.instantiations))
    return M.Type(tuple(tn.namespaces), name, tuple(p_typename(i) for i in tn.instantiations))


def _ptr(t, problems=None) -> str:
    marks = []
    for attr, want in (('is_shared_ptr', '*'), ('is_ptr', '@'), ('is_ref', '&')):
        v = getattr(t, attr)
        if v:
            marks.append(v if v == want else '%s=%s' % (attr, v))
    if len(marks) > 1 and problems is not None:
        problems.append("more than one pointer marker on %s: %r" % (t.typename.name, marks))
    return ''.join(marks)


def _strip(t: M.Type) -> M.Type:
    return M.Type(t.ns, t.name, tuple(_strip(a) for a in t.targs))


def p_type(t, problems=None) -> M.Type:
    """parser.Type | parser.TemplatedType -> Type."""
    parser = _gt()
    if isinstance(t, parser.TemplatedType):
        targs = tuple(p_type(x, problems) for x in t.template_params)
        tn = t.typename
        if problems is not None:
            # typename.instantiations must mirror template_params
            inst = [p_typename(i) for i in tn.instantiations]
            if [_strip(a) for a in targs] != inst:
                problems.append("templated type %s: typename.instantiations %r differ from "
                                "template_params %r" % (tn.name, inst, targs))
        return M.Type(tuple(tn.namespaces), tn.name, targs, bool(t.is_const), _ptr(t, problems))
    if isinstance(t, parser.Type):
        base = p_typename(t.typename)
        if problems is not None and bool(t.is_basic) != (not base.ns and base.name in M.BASIC):
            problems.append("type %s: is_basic=%r" % (base.name, t.is_basic))
        return M.Type(base.ns, base.name, base.targs, bool(t.is_const), _ptr(t, problems))
    if isinstance(t, parser.Typename):
        return p_typename(t)
    raise TypeError("not a type node: %r (%s)" % (t, type(t).__name__))


def p_args(al, problems) -> Tuple[M.Arg, ...]:
    out = []
    for a in al.list():
        d = a.default
        if d is not None and not isinstance(d, str):
            d = str(d)
        out.append(M.Arg(p_type(a.ctype, problems), a.name, d))
    return tuple(out)


def p_ret(r, problems) -> M.Ret:
    t2 = r.type2
    return M.Ret(p_type(r.type1, problems), p_type(t2, problems) if t2 else None)


def p_template(t):
    parser = _gt()
    if not t:
        return None
    if not isinstance(t, parser.Template):
        raise TypeError("template slot holds %r" % (t,))
    params = []
    for name, insts in zip(t.typenames, t.instantiations):
        params.append(M.TParam(name, tuple(p_typename(i) for i in insts)))
    return M.Template(tuple(params))


def p_enum(e) -> M.Enum:
    return M.Enum(e.name, tuple(x.name for x in e.enumerators))


def _default(d):
    if d is None:
        return None
    return d if isinstance(d, str) else str(d)


def p_class(c, problems, path) -> M.Class:
    members: List = []
    for k in c.ctors:
        members.append(M.Ctor(k.name, p_args(k.args, problems), p_template(k.template)))
        if k.parent is not c:
            problems.append("ctor of %s: parent link" % c.name)
    for m in c.methods:
        members.append(M.Method(p_ret(m.return_type, problems), m.name, p_args(m.args, problems),
                                bool(m.is_const), p_template(m.template)))
        if m.parent is not c:
            problems.append("method %s.%s: parent link" % (c.name, m.name))
    for s in c.static_methods:
        members.append(M.Static(p_ret(s.return_type, problems), s.name, p_args(s.args, problems),
                                p_template(s.template)))
        if s.parent is not c:
            problems.append("static %s.%s: parent link" % (c.name, s.name))
    for d in c.dunder_methods:
        members.append(M.Dunder(d.name, p_args(d.args, problems)))
    for p in c.properties:
        members.append(M.Prop(p_type(p.ctype, problems), p.name, _default(p.default)))
    for o in c.operators:
        if o.name != 'operator':
            problems.append("operator node named %r" % o.name)
        if bool(o.is_unary) != (len(o.args) == 0):
            problems.append("operator%s: is_unary" % o.operator)
        members.append(M.Operator(p_ret(o.return_type, problems), o.operator,
                                  p_args(o.args, problems), bool(o.is_const)))
    for e in c.enums:
        members.append(p_enum(e))
    parent = None
    if c.parent_class:
        parent = p_type(c.parent_class, problems)
    if c.namespaces() != [''] + list(path):
        problems.append("class %s: namespaces() %r != %r" % (c.name, c.namespaces(), path))
    return M.Class(c.name, tuple(members), p_template(c.template), bool(c.is_virtual), parent)


def p_item(it, problems, path):
    """Project one non-namespace item of a scope."""
    parser = _gt()
    if isinstance(it, parser.Class):
        return p_class(it, problems, path)
    if isinstance(it, parser.ForwardDeclaration):
        if it.name != it.typename.name:
            problems.append("forward declaration name %r vs typename %r" %
                            (it.name, it.typename.name))
        return M.Fwd(p_typename(it.typename), bool(it.is_virtual),
                     p_type(it.parent_type, problems) if it.parent_type else None)
    if isinstance(it, parser.Include):
        return M.Include(str(it.header))
    if isinstance(it, parser.TypedefTemplateInstantiation):
        return M.Typedef(p_typename(it.typename), it.new_name)
    if isinstance(it, parser.GlobalFunction):
        return M.Func(p_ret(it.return_type, problems), it.name,
                      p_args(it.args, problems), p_template(it.template))
    if isinstance(it, parser.Enum):
        if it.namespaces() != [''] + list(path):
            problems.append("enum %s: namespaces() %r" % (it.name, it.namespaces()))
        return p_enum(it)
    if isinstance(it, parser.Variable):
        return M.Var(p_type(it.ctype, problems), it.name, _default(it.default))
    problems.append("unknown node in tree: %r" % (it,))
    return None


def p_content(ns, problems, path) -> Tuple:
    parser = _gt()
    out = []
    for it in ns.content:
        if getattr(it, 'parent', None) is not ns:
            problems.append("%s: parent link does not point to enclosing scope %r" %
                            (type(it).__name__, path))
        if isinstance(it, parser.Namespace):
            sub = path + (it.name,)
            if it.full_namespaces() != [''] + list(sub):
                problems.append("namespace %s: full_namespaces() %r" % (it.name,
                                                                         it.full_namespaces()))
            out.append(M.Namespace(it.name, p_content(it, problems, sub)))
        else:
            x = p_item(it, problems, path)
            if x is not None:
                out.append(x)
    return tuple(out)


def project(tree) -> Tuple[M.Module, List[str]]:
    """Return (model, problems); problems lists internal inconsistencies of the tree
    (parent links, namespace paths, duplicated bookkeeping)."""
    problems: List[str] = []
    if tree.name != '':
        problems.append("module namespace is named %r" % tree.name)
    try:
        return M.Module(p_content(tree, problems, ())), problems
    except (AttributeError, TypeError, KeyError, IndexError) as e:
        # a node of another kind than the documented tree holds in that position
        raise MalformedTree('%s: %s' % (type(e).__name__, e)) from e


class MalformedTree(Exception):
    """The parse tree cannot be read as the documented structure."""


def parse(text: str):
    import gtwrap.interface_parser as parser
    return parser.Module.parseString(text)
