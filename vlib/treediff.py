"""First difference between two dataclass trees, as a readable path."""
import dataclasses


def first_diff(a, b, path='') -> str:
    if type(a) is not type(b):
        return '%s: kind %s vs %s (%r vs %r)' % (path or '/', type(a).__name__,
                                                  type(b).__name__, _short(a), _short(b))
    if dataclasses.is_dataclass(a):
        for f in dataclasses.fields(a):
            x, y = getattr(a, f.name), getattr(b, f.name)
            if x != y:
                label = getattr(a, 'name', None)
                label = label if isinstance(label, str) else type(a).__name__
                return first_diff(x, y, '%s/%s.%s' % (path, label, f.name))
        return ''
    if isinstance(a, (tuple, list)):
        if len(a) != len(b):
            return '%s: %d vs %d elements (expected %s, got %s)' % (
                path, len(a), len(b), [_short(i) for i in a], [_short(i) for i in b])
        for i, (x, y) in enumerate(zip(a, b)):
            if x != y:
                return first_diff(x, y, '%s[%d]' % (path, i))
        return ''
    if a != b:
        return '%s: expected %r, got %r' % (path, a, b)
    return ''


def _short(x):
    if dataclasses.is_dataclass(x):
        n = getattr(x, 'name', '')
        return '%s(%s)' % (type(x).__name__, n if isinstance(n, str) else '')
    s = repr(x)
    return s if len(s) < 60 else s[:57] + '...'
