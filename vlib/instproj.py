"""gtwrap *instantiated* tree -> the structure produced by vlib.refinst.expected, built only
from public spellings (to_cpp(), names, defaults)."""
from __future__ import annotations

from typing import List

from . import project as P
from .refinst import nows


def _gt():
    import gtwrap.interface_parser as parser
    import gtwrap.template_instantiator as inst
    return parser, inst


def _args(al):
    return [(nows(a.ctype.to_cpp()), a.name, a.default if a.default is None else str(a.default))
            for a in al.list()]


def _ret(r):
    return (nows(r.type1.to_cpp()), nows(r.type2.to_cpp()) if r.type2 else None)


def p_inst_class(c) -> dict:
    out = {'k': 'class', 'name': c.name, 'cpp': nows(c.to_cpp()), 'path': c.namespaces()[1:],
           'virtual': bool(c.is_virtual), 'ctors': [], 'methods': [], 'statics': [], 'props': [],
           'ops': [], 'enums': [], 'dunders': []}
    pc = c.parent_class
    out['parent'] = nows(pc.to_cpp() if hasattr(pc, 'to_cpp') else str(pc)) if pc else None
    for k in c.ctors:
        out['ctors'].append({'name': k.name, 'cpp': nows(k.to_cpp()), 'args': _args(k.args)})
    for m in c.methods:
        out['methods'].append({'name': m.name, 'cpp': nows(m.to_cpp()),
                               'ret': _ret(m.return_type), 'args': _args(m.args),
                               'const': bool(m.is_const)})
    for m in c.static_methods:
        out['statics'].append({'name': m.name, 'cpp': nows(m.to_cpp()),
                               'ret': _ret(m.return_type), 'args': _args(m.args)})
    for p in c.properties:
        out['props'].append((nows(p.ctype.to_cpp()), p.name,
                             p.default if p.default is None else str(p.default)))
    for o in c.operators:
        out['ops'].append({'op': o.operator, 'ret': _ret(o.return_type), 'args': _args(o.args),
                           'const': bool(o.is_const)})
    for e in c.enums:
        out['enums'].append((e.name, [x.name for x in e.enumerators]))
    for d in c.dunder_methods:
        out['dunders'].append({'name': d.name, 'args': _args(d.args)})
    return out


def p_scope(ns) -> List[dict]:
    parser, inst = _gt()
    out = []
    for it in ns.content:
        if isinstance(it, parser.Namespace):
            out.append({'k': 'ns', 'name': it.name, 'items': p_scope(it)})
        elif isinstance(it, inst.InstantiatedClass):
            out.append(p_inst_class(it))
        elif isinstance(it, inst.InstantiatedGlobalFunction):
            out.append({'k': 'func', 'name': it.name, 'cpp': nows(it.to_cpp()),
                        'path': it.parent.full_namespaces()[1:] if it.parent else [],
                        'ret': _ret(it.return_type), 'args': _args(it.args)})
        elif isinstance(it, inst.InstantiatedDeclaration):
            out.append({'k': 'decl', 'name': it.name, 'cpp': nows(it.to_cpp()),
                        'path': it.namespaces()[1:]})
        else:
            out.append({'k': 'pass', 'item': P.p_item(it, [], tuple(_path_of(it)))})
    return out


def _path_of(it):
    p = getattr(it, 'parent', None)
    if p and hasattr(p, 'full_namespaces'):
        return p.full_namespaces()[1:]
    return []


def instantiate(text: str):
    """parse + instantiate with gtwrap; returns the instantiated module namespace."""
    parser, inst = _gt()
    module = parser.Module.parseString(text)
    return inst.instantiate_namespace(module)
