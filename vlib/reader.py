"""Independent reader of the interface dialect: text -> vlib.model (no pyparsing, no gtwrap).

Used for fixtures and hand-written witnesses (well-formed input only): it gives checks an
expected model that does not come from the code under test.  Raises ReadError on anything it
does not understand.
"""
from __future__ import annotations

import re
from typing import List, Optional, Tuple

from . import model as M


class ReadError(Exception):
    pass


_TOK = re.compile(r'''
    (?P<ws>\s+)
  | (?P<lc>//[^\n]*)
  | (?P<bc>/\*.*?\*/)
  | (?P<inc>\#include)
  | (?P<id>[A-Za-z_][A-Za-z0-9_]*|[0-9]+)
  | (?P<scope>::)
  | (?P<str>"(?:[^"\\\n]|\\.)*"|'(?:[^'\\\n]|\\.)*')
  | (?P<p>.)
''', re.S | re.X)


def lex(text: str, keep_comments=False) -> List[Tuple[str, str, int, int]]:
    """-> [(kind, lexeme, start, end)] without whitespace and comments."""
    out = []
    for m in _TOK.finditer(text):
        k = m.lastgroup
        if k == 'ws' or (k in ('lc', 'bc') and not keep_comments):
            continue
        out.append((k, m.group(), m.start(), m.end()))
    return out


def strip_comments(text: str) -> str:
    out = []
    for m in _TOK.finditer(text):
        out.append(' ' if m.lastgroup in ('lc', 'bc') else m.group())
    return ''.join(out)


class _P:
    def __init__(self, text):
        self.text = text
        self.toks = lex(text)
        self.i = 0

    def peek(self, k=0):
        j = self.i + k
        return self.toks[j][1] if j < len(self.toks) else None

    def kind(self, k=0):
        j = self.i + k
        return self.toks[j][0] if j < len(self.toks) else None

    def next(self):
        if self.i >= len(self.toks):
            raise ReadError('unexpected end of input')
        t = self.toks[self.i]
        self.i += 1
        return t[1]

    def expect(self, s):
        t = self.next()
        if t != s:
            raise ReadError('expected %r, found %r at token %d' % (s, t, self.i - 1))

    def accept(self, s):
        if self.peek() == s:
            self.i += 1
            return True
        return False

    def ident(self):
        if self.kind() != 'id':
            raise ReadError('identifier expected, found %r' % (self.peek(),))
        return self.next()

    # ---- types
    def typename(self) -> M.Type:
        parts = [self.ident()]
        if parts[0] == 'unsigned' and self.peek() == 'char':
            self.next()
            return M.Type((), 'unsigned char')
        while self.peek() == '::':
            self.next()
            parts.append(self.ident())
        targs = ()
        if self.peek() == '<':
            self.next()
            lst = [self.type()]
            while self.accept(','):
                lst.append(self.type())
            self.expect('>')
            targs = tuple(lst)
        return M.Type(tuple(parts[:-1]), parts[-1], targs)

    def type(self) -> M.Type:
        const = self.accept('const')
        t = self.typename()
        ptr = ''
        if self.peek() in ('*', '@', '&'):
            ptr = self.next()
        return M.Type(t.ns, t.name, t.targs, const, ptr)

    def ret(self) -> M.Ret:
        j = self.i
        std = False
        if self.peek() == 'std' and self.peek(1) == '::' and self.peek(2) == 'pair' and \
                self.peek(3) == '<':
            std = True
            j += 2
        if self.toks[j][1] == 'pair' and j + 1 < len(self.toks) and self.toks[j + 1][1] == '<':
            save = self.i
            self.i = j + 2
            t1 = self.type()
            self.expect(',')
            t2 = self.type()
            self.expect('>')
            if self.peek() in ('*', '@', '&'):  # a templated type named pair, not a pair return
                self.i = save
            else:
                return M.Ret(t1, t2, std)
        return M.Ret(self.type())

    def default(self) -> str:
        """raw source text up to the top-level ',' ')' or ';'."""
        depth = 0
        first = self.i
        opener = {'(': ')', '[': ']', '{': '}', '<': '>'}
        stack = []
        while True:
            t = self.peek()
            if t is None:
                raise ReadError('unterminated default value')
            if not stack and t in (',', ')', ';'):
                break
            if t in opener:
                stack.append(opener[t])
            elif stack and t == stack[-1]:
                stack.pop()
            self.i += 1
        if self.i == first:
            raise ReadError('empty default value')
        return self.text[self.toks[first][2]:self.toks[self.i - 1][3]]

    def args(self) -> Tuple[M.Arg, ...]:
        self.expect('(')
        out = []
        if not self.accept(')'):
            while True:
                t = self.type()
                n = self.ident()
                d = None
                if self.accept('='):
                    d = self.default()
                out.append(M.Arg(t, n, d))
                if self.accept(')'):
                    break
                self.expect(',')
        return tuple(out)

    def template(self) -> Optional[M.Template]:
        if self.peek() != 'template':
            return None
        self.next()
        self.expect('<')
        params = []
        while True:
            name = self.ident()
            insts = ()
            if self.accept('='):
                self.expect('{')
                lst = [self.type()]
                while self.accept(','):
                    lst.append(self.type())
                self.expect('}')
                insts = tuple(lst)
            params.append(M.TParam(name, insts))
            if self.accept('>'):
                break
            self.expect(',')
        return M.Template(tuple(params))

    def enum(self) -> M.Enum:
        self.expect('enum')
        kw = 'enum'
        if self.peek() in ('class', 'struct'):
            kw = 'enum ' + self.next()
        name = self.ident()
        self.expect('{')
        es = [self.ident()]
        while self.accept(','):
            es.append(self.ident())
        self.expect('}')
        self.expect(';')
        return M.Enum(name, tuple(es), kw)

    def member(self, cname):
        if self.peek() == 'enum':
            return self.enum()
        t = self.peek()
        if self.kind() == 'id' and t.startswith('__') and t.endswith('__') and len(t) > 4 \
                and self.peek(1) == '(':
            self.next()
            a = self.args()
            self.expect(';')
            return M.Dunder(t[2:-2], a)
        tpl = self.template()
        if self.accept('static'):
            r = self.ret()
            n = self.ident()
            a = self.args()
            self.expect(';')
            return M.Static(r, n, a, tpl)
        if self.kind() == 'id' and self.peek(1) == '(':
            n = self.next()
            a = self.args()
            self.expect(';')
            return M.Ctor(n, a, tpl)
        r = self.ret()
        if self.peek() == 'operator':
            self.next()
            op = ''
            while self.peek() != '(' or op == '' or (op == '(' and False):
                if self.peek() == '(' and op == '':
                    self.next()
                    self.expect(')')
                    op = '()'
                    break
                op += self.next()
            a = self.args()
            c = self.accept('const')
            self.expect(';')
            return M.Operator(r, op, a, c)
        n = self.ident()
        if self.peek() == '(':
            a = self.args()
            c = self.accept('const')
            self.expect(';')
            return M.Method(r, n, a, c, tpl)
        if r.t2 is not None or tpl is not None:
            raise ReadError('bad member %r' % n)
        d = None
        if self.accept('='):
            d = self.default()
        self.expect(';')
        return M.Prop(r.t1, n, d)

    def item(self):
        t = self.peek()
        if t == '#include':
            self.next()
            if self.peek() != '<':
                raise ReadError('#include needs <header>')
            start = self.toks[self.i][3]
            end = self.text.index('>', start)
            header = self.text[start:end]
            while self.i < len(self.toks) and self.toks[self.i][2] <= end:
                self.i += 1
            return M.Include(header)
        if t == 'namespace':
            self.next()
            name = self.ident()
            self.expect('{')
            content = []
            while not self.accept('}'):
                content.append(self.item())
            return M.Namespace(name, tuple(content))
        if t == 'typedef':
            self.next()
            ty = self.type()
            name = self.ident()
            self.expect(';')
            return M.Typedef(M.Type(ty.ns, ty.name, ty.targs), name)
        if t == 'enum':
            return self.enum()
        tpl = self.template()
        j = self.i
        virtual = False
        if self.peek() == 'virtual':
            virtual = True
            j += 1
        if j < len(self.toks) and self.toks[j][1] == 'class':
            self.i = j + 1
            name_t = self.typename()
            parent = None
            if self.accept(':'):
                parent = self.type()
            if self.accept(';'):
                if tpl is not None:
                    raise ReadError('templated forward declaration')
                return M.Fwd(name_t, virtual, parent)
            self.expect('{')
            members = []
            while not self.accept('}'):
                members.append(self.member(name_t.name))
            self.expect(';')
            if name_t.ns or name_t.targs:
                raise ReadError('qualified class name')
            return M.Class(name_t.name, tuple(members), tpl, virtual, parent)
        r = self.ret()
        n = self.ident()
        if self.peek() == '(':
            a = self.args()
            self.expect(';')
            return M.Func(r, n, a, tpl)
        if r.t2 is not None or tpl is not None:
            raise ReadError('bad declaration %r' % n)
        d = None
        if self.accept('='):
            d = self.default()
        self.expect(';')
        return M.Var(r.t1, n, d)

    def module(self) -> M.Module:
        content = []
        while self.i < len(self.toks):
            content.append(self.item())
        return M.Module(tuple(content))


def read(text: str) -> M.Module:
    return _P(text).module()
