"""Conforming mock C++ library for an interface model.

emit(model) -> header text declaring every entity of the interface *as written* (namespaces,
classes, class/member/function templates as real C++ templates, constructors, methods, static
methods, data members, operators, enums with distinctive values, functions, variables, bases).
Every body appends one record to a global trace and returns a value that is a pure function of
the entity.  Generated from the model only (never from gtwrap output).
"""
from __future__ import annotations

import zlib
from typing import List, Optional, Sequence

from . import model as M

PRELUDE = r'''
#pragma once
#include <algorithm>
#include <deque>
#include <map>
#include <memory>
#include <optional>
#include <sstream>
#include <string>
#include <utility>
#include <vector>
namespace vtrace {
inline std::vector<std::string> &log() { static std::vector<std::string> l; return l; }
inline long &live() { static long n = 0; return n; }
inline long next_id() { static long n = 0; return ++n; }
template <typename T, typename = void> struct tname { static std::string get() { return "?"; } };
#define VT_NAME(T) template <> struct tname<T> { static std::string get() { return #T; } };
VT_NAME(bool) VT_NAME(char) VT_NAME(unsigned char) VT_NAME(int) VT_NAME(size_t) VT_NAME(double)
VT_NAME(float)
template <> struct tname<std::string> { static std::string get() { return "string"; } };
template <typename T> struct tname<std::vector<T>> {
  static std::string get() { return "std::vector<" + tname<T>::get() + ">"; } };
template <int N> struct prio : prio<N - 1> {};
template <> struct prio<0> {};
inline std::string show_(bool v, prio<9>) { return v ? "true" : "false"; }
inline std::string show_(char v, prio<9>) { return std::string("'") + v + "'"; }
inline std::string show_(unsigned char v, prio<9>) { return "u" + std::to_string((int)v); }
inline std::string show_(int v, prio<9>) { return std::to_string(v); }
inline std::string show_(size_t v, prio<9>) { return std::to_string(v) + "z"; }
inline std::string show_(double v, prio<9>) { std::ostringstream o; o << v; return o.str() + "d"; }
inline std::string show_(float v, prio<9>) { std::ostringstream o; o << v; return o.str() + "f"; }
inline std::string show_(const std::string &v, prio<9>) { return "\"" + v + "\""; }
template <typename T> std::string show(const T &v);
template <typename T> auto show_(const T &v, prio<5>) -> decltype(v.vid_, std::string()) {
  return "obj#" + std::to_string(v.vid_); }
template <typename T> auto show_(const T &v, prio<9>)
    -> typename std::enable_if<std::is_enum<T>::value, std::string>::type {
  return "enum:" + std::to_string((int)v); }
template <typename T> std::string show_(const std::shared_ptr<T> &p, prio<6>) {
  return p ? "sp:" + show(*p) : std::string("sp:null"); }
template <typename T> std::string show_(T *p, prio<6>) {
  return p ? "rp:" + show(*p) : std::string("rp:null"); }
template <typename T> std::string show_(const T &, prio<0>) { return "?"; }
template <typename T> std::string show(const T &v) { return show_(v, prio<9>()); }
inline void rec(const std::string &entity, const std::string &sig, long self,
                std::initializer_list<std::string> args) {
  std::string s = entity + "|" + sig + "|" + (self ? "this=" + std::to_string(self) : "-") + "|";
  bool first = true;
  for (auto &a : args) { if (!first) s += ";"; s += a; first = false; }
  log().push_back(s);
}
// characteristic return values
template <typename T, typename = void> struct ret {
  static T get(unsigned h) { (void)h; return typename std::remove_const<T>::type(); } };
template <typename T> struct ret<const T> { static const T get(unsigned h) { return ret<T>::get(h); } };
template <> struct ret<bool> { static bool get(unsigned h) { return (h & 1) != 0; } };
template <> struct ret<char> { static char get(unsigned h) { return (char)('a' + h % 26); } };
template <> struct ret<unsigned char> { static unsigned char get(unsigned h) { return (unsigned char)(h % 200); } };
template <> struct ret<int> { static int get(unsigned h) { return (int)(h % 10007) - 5000; } };
template <> struct ret<size_t> { static size_t get(unsigned h) { return (size_t)(h % 10007); } };
template <> struct ret<double> { static double get(unsigned h) { return (double)(h % 4096) + 0.5; } };
template <> struct ret<float> { static float get(unsigned h) { return (float)(h % 128) + 0.25f; } };
template <> struct ret<std::string> {
  static std::string get(unsigned h) { return "ret" + std::to_string(h % 100000); } };
template <typename T> struct ret<std::shared_ptr<T>> {
  static std::shared_ptr<T> get(unsigned) { return std::make_shared<T>(); } };
template <typename T> struct ret<T *> {
  static T *get(unsigned) { return new typename std::remove_const<T>::type(); } };
template <typename T> struct ret<T &> {
  static T &get(unsigned h) {
    typedef typename std::remove_const<T>::type U;
    static std::map<unsigned, std::unique_ptr<U>> m;
    auto it = m.find(h);
    if (it == m.end()) it = m.emplace(h, std::unique_ptr<U>(new U(ret<U>::get(h)))).first;
    return *it->second; } };
template <typename A, typename B> struct ret<std::pair<A, B>> {
  static std::pair<A, B> get(unsigned h) { return std::pair<A, B>(ret<A>::get(h), ret<B>::get(h + 1)); } };
}  // namespace vtrace
namespace gtsam { struct RedirectCout { std::string str() const { return "printed"; } }; }
'''

FOREIGN = r'''
// foreign types an interface may mention without declaring them
struct Vector { long vid_ = 0; }; struct Matrix { long vid_ = 0; }; struct Key { long vid_ = 0; };
struct Tester { long vid_ = 0; };
namespace gtsam { struct Pose3 { long vid_ = 0; }; struct Point3 { long vid_ = 0; };
  struct Tensor { long vid_ = 0; };
  namespace noiseModel { struct Base { long vid_ = 0; }; }
  template <typename... T> struct BearingRange { long vid_ = 0; }; }
namespace Eigen { struct MatrixXd { long vid_ = 0; }; }
namespace ns { template <typename... T> struct Tpl { long vid_ = 0; }; }
template <typename... T> struct FastVector { long vid_ = 0; };
'''


def h32(s: str) -> int:
    return zlib.crc32(s.encode()) & 0x7fffffff


def cpp_type(t: M.Type, this: Optional[str] = None) -> str:
    """C++ spelling of a declared type the way gtwrap documents it: T* = shared_ptr, T@ = raw."""
    name = '::'.join(t.ns + (t.name,))
    if not t.ns and t.name == 'This' and this:
        name = this
    elif t.ns and t.ns[0] == 'This' and this:
        name = '::'.join((this,) + t.ns[1:] + (t.name,))
    if name == 'string':
        name = 'std::string'
    if t.targs:
        name += '<' + ', '.join(cpp_type(a, this) for a in t.targs) + '>'
    if t.ptr == '*':
        name = 'std::shared_ptr<%s>' % name
    elif t.ptr == '@':
        name += '*'
    elif t.ptr == '&':
        name += '&'
    return ('const ' if t.const else '') + name


def alias_arg(r: M.Ret, args: Sequence[M.Arg], this: Optional[str] = None) -> Optional[str]:
    """A callable that takes a shared pointer to a class and returns a shared pointer of the
    same type hands back its (first such) argument: the caller then holds two handles on one
    object.  Everything else returns a fresh object."""
    if r.t2 is not None or r.t1.ptr != '*' or r.t1.const:
        return None
    rt = cpp_type(r.t1, this)
    for a in args:
        if a.type.ptr == '*' and not a.type.const and cpp_type(a.type, this) == rt:
            return a.name
    return None


def sig_of(args: Sequence[M.Arg]) -> str:
    return '(' + ','.join(_sig_type(a.type) for a in args) + ')'


def _sig_type(t: M.Type) -> str:
    s = ('const ' if t.const else '') + '::'.join(t.ns + (t.name,))
    if t.targs:
        s += '<' + ','.join(_sig_type(a) for a in t.targs) + '>'
    return s + t.ptr


def ret_cpp(r: M.Ret, this) -> str:
    if r.t2 is None:
        return cpp_type(r.t1, this)
    return 'std::pair<%s, %s>' % (cpp_type(r.t1, this), cpp_type(r.t2, this))


class Emitter:
    def __init__(self, executable=True):
        self.out: List[str] = []
        self.tnames: List[str] = []
        self.executable = executable

    def w(self, s=''):
        self.out.append(s)

    def args_decl(self, args, this):
        return ', '.join('%s %s' % (cpp_type(a.type, this), a.name) for a in args)

    def rec(self, entity, args, self_expr='0', targs: Sequence[str] = (), prefix_expr=None):
        """entity: literal name; prefix_expr: C++ expression (std::string) to use instead of the
        literal class prefix (class templates spell their arguments at run time)."""
        shown = ', '.join('vtrace::show(%s)' % a.name for a in args)
        if prefix_expr is not None:
            ent = '%s + std::string("::%s")' % (prefix_expr, entity.rsplit('::', 1)[-1])
        else:
            ent = 'std::string("%s")' % entity
        if targs:
            ent += ' + "<" + %s + ">"' % ' + "," + '.join(
                'vtrace::tname<%s>::get()' % t for t in targs)
        return 'vtrace::rec(%s, "%s", %s, {%s});' % (ent, sig_of(args), self_expr, shown)

    def ret_stmt(self, r: M.Ret, entity, this, args=()):
        if r.t2 is None and r.t1.name == 'void' and not r.t1.ns:
            return ''
        same = alias_arg(r, args, this)
        if same is not None:
            return ' return %s;' % same
        return ' return vtrace::ret<%s>::get(%du);' % (ret_cpp(r, this), h32(entity))

    def template_head(self, tpl: Optional[M.Template]):
        if tpl is None:
            return ''
        return 'template <%s> ' % ', '.join('typename ' + p.name for p in tpl.params)

    def emit_enum(self, e: M.Enum, indent=''):
        kw = 'enum class' if e.kw != 'enum' else 'enum'
        vals = ', '.join('%s = %d' % (n, 10 * i + 3) for i, n in enumerate(e.enumerators))
        self.w('%s%s %s { %s };' % (indent, kw, e.name, vals))

    def emit_class(self, c: M.Class, path):
        qual = '::'.join(path + (c.name,))
        this = c.name
        if c.template is not None:
            this = c.name  # injected class name inside the template
        head = self.template_head(c.template)
        base = ''
        if c.parent is not None:
            base = ' : public ' + cpp_type(c.parent, this)
        self.w('%sclass %s%s {' % (head, c.name, base))
        self.w(' public:')
        self.w('  long vid_;')
        declared_default = any(isinstance(m, M.Ctor) and not m.args and m.template is None
                               for m in c.members)
        if not declared_default:
            self.w('  %s() : vid_(vtrace::next_id()) { ++vtrace::live(); }' % c.name)
        declared_copy = any(isinstance(m, M.Ctor) and m.template is None and len(m.args) == 1 and
                            m.args[0].type.ptr == '&' and m.args[0].type.const and
                            not m.args[0].type.ns and
                            m.args[0].type.name in ('This', c.name) for m in c.members)
        if not declared_copy:
            self.w('  %s(const %s &o) : %svid_(vtrace::next_id()) { (void)o; ++vtrace::live(); }' % (
                c.name, c.name,
                # explicitly the base's copy constructor (a templated constructor of the base
                # would otherwise be the better match for a derived argument)
                ('%s(static_cast<const %s &>(o)), ' % (cpp_type(c.parent, this),
                                                     cpp_type(c.parent, this)))
                if c.parent is not None else ''))
        self.w('  %s &operator=(const %s &) { return *this; }' % (c.name, c.name))
        self.w('  %s~%s() { --vtrace::live(); }' % ('virtual ' if c.virtual else '', c.name))
        ent = qual
        px = None
        if c.template is not None:
            px = 'std::string("%s<") + %s + ">"' % (qual, ' + "," + '.join(
                'vtrace::tname<%s>::get()' % n for n in c.template.names()))
        for m in c.members:
            if isinstance(m, M.Enum):
                self.emit_enum(m, '  ')
        for m in c.members:
            if isinstance(m, M.Ctor):
                th = self.template_head(m.template)
                targs = m.template.names() if m.template else ()
                self.w('  %s%s(%s) : vid_(vtrace::next_id()) { ++vtrace::live(); %s }' % (
                    th, c.name, self.args_decl(m.args, this),
                    self.rec(ent + '::' + c.name, m.args, 'vid_', targs, px)))
            elif isinstance(m, M.Method):
                th = self.template_head(m.template)
                targs = m.template.names() if m.template else ()
                e = ent + '::' + m.name
                self.w('  %s%s %s(%s)%s { %s%s }' % (
                    th, ret_cpp(m.ret, this), m.name, self.args_decl(m.args, this),
                    ' const' if m.const else '', self.rec(e, m.args, 'vid_', targs, px),
                    self.ret_stmt(m.ret, e, this, m.args)))
            elif isinstance(m, M.Static):
                th = self.template_head(m.template)
                targs = m.template.names() if m.template else ()
                e = ent + '::' + m.name
                self.w('  %sstatic %s %s(%s) { %s%s }' % (
                    th, ret_cpp(m.ret, this), m.name, self.args_decl(m.args, this),
                    self.rec(e, m.args, '0', targs, px), self.ret_stmt(m.ret, e, this, m.args)))
            elif isinstance(m, M.Operator):
                e = ent + '::operator' + m.op
                self.w('  %s operator%s(%s)%s { %s%s }' % (
                    ret_cpp(m.ret, this), m.op, self.args_decl(m.args, this),
                    ' const' if m.const else '', self.rec(e, m.args, 'vid_', (), px),
                    self.ret_stmt(m.ret, e, this)))
            elif isinstance(m, M.Prop):
                t = cpp_type(m.type, this)
                if m.type.ptr == '&':
                    t = t[:-1]  # a data member the wrapper can take the address of
                self.w('  %s %s{};' % (t, m.name))
        if any(isinstance(m, M.Dunder) for m in c.members):
            self.w('  const int *begin() const { static int d[3] = {1, 2, 3}; return d; }')
            self.w('  const int *end() const { return begin() + 3; }')
        self.w('};')
        if c.template is not None:
            names = c.template.names()
            self.tnames.append(
                'template <%s> struct tname<%s<%s>> { static std::string get() { return '
                'std::string("%s<") + %s + ">"; } };' % (
                    ', '.join('typename ' + n for n in names), qual, ', '.join(names), qual,
                    ' + "," + '.join('tname<%s>::get()' % n for n in names)))
        else:
            self.tnames.append('template <> struct tname<%s> { static std::string get() { '
                               'return "%s"; } };' % (qual, qual))

    def emit_scope(self, scope, path):
        typedef_targets = {}
        for it in scope.content:
            if isinstance(it, M.Namespace):
                self.w('namespace %s {' % it.name)
                self.emit_scope(it, path + (it.name,))
                self.w('}  // namespace %s' % it.name)
            elif isinstance(it, M.Class):
                self.emit_class(it, path)
            elif isinstance(it, M.Enum):
                self.emit_enum(it)
                q = '::'.join(path + (it.name,))
            elif isinstance(it, M.Func):
                th = self.template_head(it.template)
                targs = it.template.names() if it.template else ()
                e = '::'.join(path + (it.name,))
                self.w('%sinline %s %s(%s) { %s%s }' % (
                    th, ret_cpp(it.ret, None), it.name, self.args_decl(it.args, None),
                    self.rec(e, it.args, '0', targs), self.ret_stmt(it.ret, e, None, it.args)))
            elif isinstance(it, M.Var):
                t = cpp_type(it.type, None)
                if it.type.ptr == '&':
                    t = t[:-1]
                bare = t[len('const '):] if it.type.const else t
                init = it.default if it.default is not None else \
                    ('vtrace::ret<%s>::get(%du)' % (bare, h32('::'.join(path + (it.name,)))))
                self.w('inline %s %s = %s;' % (t, it.name, init))
            elif isinstance(it, M.Fwd):
                self.fwds.setdefault((path, it.name.name), it)
            # Include / Typedef need nothing in the library

    def emit(self, m: M.Module, foreign=True) -> str:
        self.fwds = {}
        self.w(PRELUDE)
        if foreign:
            self.w(FOREIGN)
        # forward-declared foreign classes: defined here (py::class_ needs complete types);
        # a typedef may use one as a template, so they are variadic templates when so used
        used_as_template = {(tuple(it.type.ns), it.type.name)
                            for _, it in M.iter_items(m) if isinstance(it, M.Typedef)}
        for path, it in M.iter_items(m):
            if isinstance(it, M.Fwd):
                for n in path:
                    self.w('namespace %s {' % n)
                if (path, it.name.name) in used_as_template:
                    self.w('template <typename... T> class %s { public: long vid_ = 0; };' %
                           it.name.name)
                else:
                    base = ' : public ' + cpp_type(it.parent) if it.parent is not None else ''
                    self.w('class %s%s { public: long vid_ = 0; %s};' % (
                        it.name.name, base, 'virtual ~%s() {} ' % it.name.name
                        if it.virtual else ''))
                for n in path:
                    self.w('}')
        self.emit_scope(m, ())
        self.w('namespace vtrace {')
        for t in self.tnames:
            self.w(t)
        self.w('}')
        return '\n'.join(self.out) + '\n'


def emit(m: M.Module, foreign=True) -> str:
    return Emitter().emit(m, foreign)
