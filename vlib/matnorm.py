"""Normalisation of MATLAB toolbox trees for metamorphic comparisons: gateway ids are replaced
by their rank so that a consistent renumbering is invisible."""
from __future__ import annotations

import re
from typing import Dict


def ids_in_m(text: str, module: str):
    return [int(x) for x in re.findall(r'\b%s_wrapper\((\d+)' % re.escape(module), text)]


def rank_ids_in_file(text: str, module: str) -> str:
    """.m file: ids -> rank among the ids used in this file."""
    ids = sorted(set(ids_in_m(text, module)))
    rank = {v: i for i, v in enumerate(ids)}
    return re.sub(r'\b(%s_wrapper\()(\d+)' % re.escape(module),
                  lambda m: '%s#%d' % (m.group(1), rank[int(m.group(2))]), text)


def normalise_tree(tree: Dict[str, str], module: str) -> Dict[str, str]:
    """All files: ids -> global rank (order of the sorted ids that occur at .m call sites)."""
    all_ids = set()
    for p, t in tree.items():
        if p.endswith('.m'):
            all_ids.update(ids_in_m(t, module))
    rank = {v: i for i, v in enumerate(sorted(all_ids))}

    def r(n):
        return '#%d' % rank.get(int(n), -1 - int(n))
    out = {}
    for p, t in tree.items():
        if p.endswith('.m'):
            t = re.sub(r'\b(%s_wrapper\()(\d+)' % re.escape(module),
                       lambda m: m.group(1) + r(m.group(2)), t)
        elif p.endswith('.cpp'):
            t = re.sub(r'\bcase (\d+):', lambda m: 'case %s:' % r(m.group(1)), t)
            # routine names end in _<id>
            t = re.sub(r'\b([A-Za-z_][A-Za-z0-9_]*?)_(\d+)(\s*\()',
                       lambda m: '%s_%s%s' % (m.group(1), r(m.group(2)), m.group(3)), t)
        out[p] = t
    return out
