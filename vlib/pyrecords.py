"""Scanned pybind statements (vlib.pyscan) -> the record format of vlib.refpy, plus the
submodule ordering check."""
from __future__ import annotations

from typing import List, Tuple

from .pyscan import Stmt, nows


def _pyargs(call):
    return tuple((a.name, None if a.default is None else nows(a.default)) for a in call.pyargs)


def records(stmts: List[Stmt]) -> Tuple[List[tuple], List[str]]:
    """-> (records, ordering problems)"""
    out: List[tuple] = []
    problems: List[str] = []
    defined = {'m_'}
    classvars = {}
    for s in stmts:
        if s.kind == 'submodule':
            if s.var not in defined:
                problems.append('submodule %s created from undefined parent %s' % (s.newvar,
                                                                                   s.var))
            if s.newvar in defined:
                problems.append('submodule variable %s created twice' % s.newvar)
            defined.add(s.newvar)
            out.append(('submodule', s.newvar, s.var, s.pyname))
            continue
        if s.kind in ('class', 'classvar', 'enum', 'attr', 'func') and s.var not in defined:
            problems.append('%s %s placed in %s before that submodule exists' % (
                s.kind, s.pyname or '', s.var))
        if s.kind in ('class', 'classvar'):
            parent = s.holder[0] if len(s.holder) == 2 else None
            if len(s.holder) not in (1, 2) or \
                    s.holder[-1] != 'std::shared_ptr<%s>' % s.cpp:
                problems.append('class %s: unexpected holder arguments %s' % (s.pyname, s.holder))
            out.append(('class', s.var, s.pyname, s.cpp, parent))
            if s.kind == 'classvar':
                if s.newvar in defined:
                    problems.append('class instance variable %s declared twice' % s.newvar)
                defined.add(s.newvar)
                classvars[s.newvar] = s.pyname
            out.extend(_calls(s.pyname, s.calls, problems))
        elif s.kind == 'chain':
            out.extend(_calls(classvars[s.var], s.calls, problems))
        elif s.kind == 'enum':
            vals = []
            for c in s.calls:
                if c.kind != 'value':
                    problems.append('enum %s: unexpected call %s' % (s.pyname, c.kind))
                    continue
                if c.target != s.cpp + '::' + c.pyname:
                    problems.append('enum %s: enumerator %s bound to %s' % (s.pyname, c.pyname,
                                                                            c.target))
                vals.append(c.pyname)
            out.append(('enum', s.var, s.pyname, s.cpp, tuple(vals)))
        elif s.kind == 'attr':
            out.append(('attr', s.var, s.pyname))
        elif s.kind == 'func':
            for c in s.calls:
                if c.kind != 'def':
                    problems.append('module-level %s' % c.kind)
                    continue
                out.append(('func', s.var, c.pyname, tuple(t for t, _ in c.lam_params),
                            _pyargs(c)))
        elif s.kind == 'other':
            problems.append('unrecognised statement: %s' % s.raw[:80])
    return out, problems


def _calls(cls, calls, problems):
    out = []
    for c in calls:
        if c.kind == 'init':
            out.append(('init', cls, tuple(c.init_types), _pyargs(c)))
        elif c.kind in ('def', 'def_static'):
            if c.target:  # .def("__getitem__", &C::operator[])
                out.append(('op', cls, c.pyname))
                continue
            params = c.lam_params
            static = c.kind == 'def_static'
            if not static:
                if not params or params[0][1] != 'self':
                    problems.append('%s.%s: instance binding without self' % (cls, c.pyname))
                else:
                    params = params[1:]
            out.append(('def', cls, c.pyname, static, tuple(t for t, _ in params), _pyargs(c)))
        elif c.kind in ('def_readwrite', 'def_readonly'):
            out.append(('prop', cls, c.pyname, c.kind == 'def_readonly'))
        elif c.kind == 'op':
            out.append(('op', cls, c.target))
        elif c.kind == 'pickle':
            out.append(('pickle', cls))
        else:
            problems.append('%s: unexpected call %s' % (cls, c.kind))
    return out
