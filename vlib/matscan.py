"""Scanner for generated MATLAB toolboxes: .m files and <module>_wrapper.cpp -> structure.

Line oriented (the generator emits one statement per line).  Never sees the model.
"""
from __future__ import annotations

import re
from dataclasses import dataclass, field
from typing import Dict, List, Optional, Tuple

from .pyscan import split_top


class MatScanError(Exception):
    pass


@dataclass
class Site:
    """One call of <module>_wrapper(id, ...) in a .m file."""
    file: str
    function: str          # enclosing MATLAB function ('Name', 'delete', 'get.x', 'f', ...)
    static_block: bool
    id: int
    args: str              # text after the id
    lhs: str               # text left of '=' ('' if none)
    guard: str             # nearest preceding if/elseif condition in the function ('' if none)
    role: str = ''         # collector | upcast | constructor | delete | method | getter | setter
    #                        | static | function | serialize | deserialize
    nargs: Optional[int] = None   # arity tested by the guard
    isa: List[Tuple[int, str]] = field(default_factory=list)  # (position, matlab type)
    shape: Dict[int, Dict[int, int]] = field(default_factory=dict)  # position -> {dim: size}
    nout: int = 0


@dataclass
class MFile:
    path: str
    kind: str              # classdef | function | enum
    name: str = ''
    parent: str = ''
    ptr_property: str = ''
    properties: List[str] = field(default_factory=list)
    functions: List[Tuple[str, bool]] = field(default_factory=list)  # (name, in static block)
    enumerators: List[Tuple[str, int]] = field(default_factory=list)
    sites: List[Site] = field(default_factory=list)
    ctor_sets_ptr: str = ''
    base_call: str = ''


_CALL = None


def scan_m(path: str, text: str, module: str) -> MFile:
    call_re = re.compile(r'(?:(.*?)=\s*)?\b%s_wrapper\((\d+)\s*(?:,\s*(.*))?\);' % re.escape(module))
    lines = text.splitlines()
    mf = MFile(path, 'function')
    code = [l for l in lines if l.strip() and not l.strip().startswith('%')]
    if not code:
        raise MatScanError('%s: empty file' % path)
    m = re.match(r'^classdef\s+(\w+)\s*<\s*(.+?)\s*$', code[0].strip())
    if m:
        mf.name, mf.parent = m.group(1), m.group(2)
        mf.kind = 'enum' if any(l.strip() == 'enumeration' for l in code) else 'classdef'
    else:
        m = re.match(r'^function\s+(?:\S+\s*=\s*)?(\w+)\(', code[0].strip())
        if not m:
            raise MatScanError('%s: neither classdef nor function: %r' % (path, code[0][:60]))
        mf.name = m.group(1)
    if mf.kind == 'enum':
        inside = False
        for l in code:
            s = l.strip()
            if s == 'enumeration':
                inside = True
            elif s == 'end':
                inside = False
            elif inside:
                m = re.match(r'^(\w+)\((-?\d+)\)$', s)
                if not m:
                    raise MatScanError('%s: bad enumerator line %r' % (path, s))
                mf.enumerators.append((m.group(1), int(m.group(2))))
        return mf
    func = ''
    static = False
    in_props = False
    guard = ''
    for l in lines:
        s = l.strip()
        if not s or s.startswith('%'):
            continue
        if s.startswith('properties'):
            in_props = True
            continue
        if in_props:
            if s == 'end':
                in_props = False
            else:
                m = re.match(r'^(\w+)(?:\s*=\s*(.*))?$', s)
                if m:
                    if m.group(1).startswith('ptr_') and not mf.ptr_property:
                        mf.ptr_property = m.group(1)
                    else:
                        mf.properties.append(m.group(1))
            continue
        if re.match(r'^methods\s*\(\s*Static\s*=\s*true\s*\)', s):
            static = True
            continue
        if s == 'methods':
            static = False
            continue
        m = re.match(r'^function\s+(?:(?:\[[^\]]*\]|\S+)\s*=\s*)?([\w.]+)\s*\(([^)]*)\)', s)
        if m:
            func = m.group(1)
            guard = ''
            mf.functions.append((func, static))
            if ', ' in s and s.endswith('end') and 'function' in s:  # one-line display/disp
                func = ''
            continue
        m = re.match(r'^(if|elseif)\s+(.*)$', s)
        if m:
            guard = m.group(2)
        m = re.match(r'^obj\.(ptr_\w+)\s*=\s*my_ptr;$', s)
        if m:
            mf.ctor_sets_ptr = m.group(1)
        m = re.match(r'^obj\s*=\s*obj@([\w.<>,: ]+)\((.*)\);$', s)
        if m:
            mf.base_call = m.group(1)
        for cm in call_re.finditer(s):
            lhs = (cm.group(1) or '').strip()
            # an 'elseif ... ' never shares a line with a call; lhs is e.g. 'varargout{1}'
            site = Site(path, func, static, int(cm.group(2)), (cm.group(3) or '').strip(), lhs,
                        guard)
            _classify(site, mf)
            mf.sites.append(site)
    return mf


def _classify(site: Site, mf: MFile):
    a = site.args
    g = site.guard
    m = re.search(r'(?:nargin|length\(varargin\))\s*==\s*(\d+)', g)
    if m:
        site.nargs = int(m.group(1))
    site.isa = [(int(i), t) for i, t in re.findall(r"isa\(varargin\{(\d+)\},\s*'([^']*)'\)", g)]
    site.shape = {}
    for i, d, n in re.findall(r"size\(varargin\{(\d+)\},\s*(\d)\)\s*==\s*(\d+)", g):
        site.shape.setdefault(int(i), {})[int(d)] = int(n)
    lhs = site.lhs
    if lhs.startswith('[') and 'varargout' in lhs:
        site.nout = len(re.findall(r'varargout\{\d+\}', lhs))
    elif 'varargout{1}' in lhs:
        site.nout = 1
    if mf.kind == 'function':
        site.role = 'function'
    elif a == 'my_ptr':
        site.role = 'collector'
    elif a == 'varargin{2}' and lhs == 'my_ptr':
        site.role = 'upcast'
    elif a.startswith('obj.ptr_'):
        site.role = 'delete'
    elif site.function.startswith('get.'):
        site.role = 'getter'
    elif site.function.startswith('set.'):
        site.role = 'setter'
    elif site.function == 'string_serialize':
        site.role = 'serialize'
    elif site.function == 'string_deserialize':
        site.role = 'deserialize'
    elif site.function == mf.name and ('my_ptr' in lhs):
        site.role = 'constructor'
    elif a.startswith('this'):
        site.role = 'method'
    elif site.static_block:
        site.role = 'static'
    else:
        site.role = 'unknown'


# ---------------------------------------------------------------------- wrapper .cpp

@dataclass
class Unwrap:
    ctype: str
    name: str
    prim: str       # unwrap | unwrap_shared_ptr | *unwrap_shared_ptr | unwrap_ptr | unwrap_enum
    targ: str       # template argument of the primitive
    index: int      # j of in[j]
    prop: str = ''  # "ptr_X" second argument


@dataclass
class Routine:
    name: str
    id: int
    body: List[str]
    check_name: str = ''
    check_n: Optional[int] = None
    check_minus1: bool = False
    shared: str = ''            # std::shared_ptr<CPP> typedef'd as Shared
    shared_base: str = ''
    obj_class: str = ''         # auto obj = unwrap_shared_ptr<CPP>(in[0], ...)
    obj_prop: str = ''
    unwraps: List[Unwrap] = field(default_factory=list)
    call: str = ''              # callee expression text before '('
    call_args: List[str] = field(default_factory=list)
    new_class: str = ''
    outs: Dict[int, str] = field(default_factory=dict)   # k -> rhs text of out[k] = ...
    collector_insert: str = ''
    collector_erase: str = ''
    deletes_self: bool = False
    upcast_to: str = ''
    assigns: str = ''           # 'obj->p = ...' for setters
    role: str = ''


_ROUTINE_HEAD = re.compile(r'^void (\w+)\(int nargout, mxArray \*out\[\], int nargin, '
                           r'const mxArray \*in\[\]\)\s*\{?$')


@dataclass
class Wrapper:
    routines: Dict[str, Routine] = field(default_factory=dict)
    duplicate_routines: List[str] = field(default_factory=list)
    cases: List[Tuple[int, str]] = field(default_factory=list)
    collectors: List[Tuple[str, str]] = field(default_factory=list)   # (cpp, name)
    collector_instances: List[str] = field(default_factory=list)
    deleted: List[str] = field(default_factory=list)
    rtti: List[Tuple[str, str]] = field(default_factory=list)
    typedefs: List[Tuple[str, str]] = field(default_factory=list)
    includes: List[str] = field(default_factory=list)
    exports: List[str] = field(default_factory=list)


def _call_parts(expr: str):
    """'obj->f(a,b)' -> ('obj->f', ['a','b'])  (quote and bracket aware)"""
    from .pyscan import match_close, ScanError
    po = _first_paren(expr)
    if po < 0:
        return expr.strip(), []
    try:
        pc = match_close(expr, po)
        inner = expr[po + 1:pc]
        args = [a.strip() for a in split_top(inner, ',', angles=False)] if inner.strip() else []
    except ScanError as e:
        raise MatScanError('cannot split call %r: %s' % (expr[:80], e))
    return expr[:po].strip(), args


def scan_cpp(text: str) -> Wrapper:
    w = Wrapper()
    lines = text.splitlines()
    i = 0
    while i < len(lines):
        l = lines[i]
        s = l.strip()
        m = re.match(r'^typedef std::set<std::shared_ptr<(.*)>\*> Collector_(\w+);$', s)
        if m:
            w.collectors.append((m.group(1).replace(' ', ''), m.group(2)))
        m = re.match(r'^static Collector_(\w+) collector_(\w+);$', s)
        if m:
            w.collector_instances.append(m.group(2))
        m = re.match(r'^\{ for\(Collector_(\w+)::iterator iter = collector_(\w+)\.begin\(\);$', s)
        if m:
            w.deleted.append(m.group(2))
        m = re.match(r'^types\.insert\(std::make_pair\(typeid\((.*)\)\.name\(\), "([^"]*)"\)\);$',
                     s)
        if m:
            w.rtti.append((m.group(1).replace(' ', ''), m.group(2)))
        m = re.match(r'^typedef (.*) (\w+);$', s)
        if m and not s.startswith('typedef std::set') and not s.startswith('typedef std::pair') \
                and not l.startswith(' '):
            w.typedefs.append((m.group(1).replace(' ', ''), m.group(2)))
        if s.startswith('#include'):
            w.includes.append(s)
        m = re.match(r'^BOOST_CLASS_EXPORT_GUID\((.*), "([^"]*)"\);$', s)
        if m:
            w.exports.append(m.group(2))
        m = re.match(r'^case (\d+):$', s)
        if m and i + 1 < len(lines):
            m2 = re.match(r'^(\w+)\(nargout, out, nargin-1, in\+1\);$', lines[i + 1].strip())
            if not m2:
                raise MatScanError('case %s not followed by a routine call' % m.group(1))
            w.cases.append((int(m.group(1)), m2.group(1)))
        hm = _ROUTINE_HEAD.match(s) if not l.startswith(' ') else None
        if hm and hm.group(1) != 'mexFunction':
            name = hm.group(1)
            body = []
            j = i + 1
            while j < len(lines) and lines[j] != '}':
                body.append(lines[j])
                j += 1
            mid = re.match(r'^(.*)_(\d+)$', name)
            r = Routine(name, int(mid.group(2)) if mid else -1, body)
            _scan_routine(r)
            if name in w.routines:
                w.duplicate_routines.append(name)
            w.routines[name] = r
            i = j
        i += 1
    return w


_UNWRAP = re.compile(
    r'^(.*?)\s+(\w+)\s*=\s*(\*?)(unwrap_shared_ptr|unwrap_ptr|unwrap_enum|unwrap)\s*<\s*(.*?)\s*>'
    r'\(in\[(\d+)\](?:,\s*"([^"]*)")?\);$')


def _scan_routine(r: Routine):
    for l in r.body:
        s = l.strip()
        if not s or s == '{':
            continue
        m = re.match(r'^checkArguments\("([^"]*)",nargout,nargin(-1)?,(\d+)\);$', s)
        if m:
            r.check_name, r.check_minus1, r.check_n = m.group(1), bool(m.group(2)), int(m.group(3))
            continue
        m = re.match(r'^typedef std::shared_ptr<(.*)> Shared;$', s)
        if m:
            r.shared = m.group(1).replace(' ', '')
            continue
        m = re.match(r'^typedef std::shared_ptr<(.*)> SharedBase;$', s)
        if m:
            r.shared_base = m.group(1).replace(' ', '')
            continue
        m = re.match(r'^auto obj = unwrap_shared_ptr<(.*)>\(in\[0\], "([^"]*)"\);$', s)
        if m:
            r.obj_class, r.obj_prop = m.group(1).replace(' ', ''), m.group(2)
            continue
        m = re.match(r'^Shared obj = unwrap_shared_ptr<(.*)>\(in\[0\], "([^"]*)"\);$', s)
        if m:
            r.obj_class, r.obj_prop = m.group(1).replace(' ', ''), m.group(2)
            continue
        m = _UNWRAP.match(s)
        if m and not s.startswith('auto obj'):
            r.unwraps.append(Unwrap(m.group(1).strip(), m.group(2), m.group(3) + m.group(4),
                                    m.group(5).replace(' ', ''), int(m.group(6)),
                                    m.group(7) or ''))
            continue
        m = re.match(r'^Shared \*self = new Shared\(new (.*?)\((.*)\)\);$', s)
        if m:
            r.new_class = m.group(1).replace(' ', '')
            inner = m.group(2)
            r.call_args = [a.strip() for a in split_top(inner, ',')] if inner.strip() else []
            continue
        m = re.match(r'^collector_(\w+)\.insert\(self\);$', s)
        if m:
            r.collector_insert = m.group(1)
            continue
        m = re.match(r'^collector_(\w+)\.erase\(item\);$', s)
        if m:
            r.collector_erase = m.group(1)
            continue
        if s == 'delete self;':
            r.deletes_self = True
            continue
        m = re.match(r'^Shared \*self = new Shared\(std::static_pointer_cast<(.*)>\(\*asVoid\)\);$',
                     s)
        if m:
            r.upcast_to = m.group(1).replace(' ', '')
            continue
        m = re.match(r'^auto pairResult = (.*);$', s)
        if m:
            r.call, r.call_args = _call_parts(m.group(1))
            continue
        m = re.match(r'^out\[(\d+)\] = (.*);$', s)
        if m:
            r.outs[int(m.group(1))] = m.group(2)
            continue
        m = re.match(r'^obj->(\w+) = (.*);$', s)
        if m:
            r.assigns = s
            continue
        m = re.match(r'^std::shared_ptr<(.*)> shared\((.*)\);$', s)
        if m:
            r.outs.setdefault(-1, s)
            if not r.call:
                inner = m.group(2)
                if '(' in inner:
                    r.call, r.call_args = _call_parts(inner)
            continue
        if re.match(r'^(obj->|[\w:<>, ]+::)?[\w<>:, ]+\(.*\);$', s) and not r.call and \
                not s.startswith(('mexAtExit', 'Shared', 'Collector_', 'item', 'if', 'boost',
                                  'ostringstream', 'istringstream', 'out_archive',
                                  'in_archive', 'string ')):
            r.call, r.call_args = _call_parts(s[:-1])
    # the call of a value-returning routine sits inside out[0] = wrap...(...)
    if not r.call and 0 in r.outs and not (r.new_class or r.upcast_to or r.collector_insert):
        inner = _strip_wrap(r.outs[0])
        if inner.startswith('*'):
            inner = inner[1:]
        if _first_paren(inner) > 0:
            r.call, r.call_args = _call_parts_at(inner, _first_paren(inner))


def _first_paren(s: str) -> int:
    """index of the first '(' outside template angle brackets (-1 if none)"""
    d = 0
    for i, c in enumerate(s):
        if c == '<':
            d += 1
        elif c == '>' and d > 0 and s[i - 1] != '-':
            d -= 1
        elif c == '(' and d == 0:
            return i
    return -1


def _call_parts_at(expr: str, po: int):
    from .pyscan import match_close, ScanError
    try:
        pc = match_close(expr, po)
        inner = expr[po + 1:pc]
        args = [a.strip() for a in split_top(inner, ',', angles=False)] if inner.strip() else []
    except ScanError as e:
        raise MatScanError('cannot split call %r: %s' % (expr[:80], e))
    return expr[:po].strip(), args


def _strip_wrap(rhs: str) -> str:
    """peel wrap< T >(X) / wrap_shared_ptr(X,"n", false) / std::make_shared<T>(X) / wrap_enum(X,..)"""
    s = rhs.strip()
    changed = True
    while changed:
        changed = False
        for pat in (r'^wrap<\s*[^()]*?\s*>\((.*)\)$', r'^wrap_shared_ptr\((.*)\)$',
                    r'^wrap_enum\((.*)\)$', r'^std::make_shared<[^()]*?>\((.*)\)$'):
            m = re.match(pat, s)
            if m:
                inner = m.group(1)
                parts = split_top(inner, ',')
                # drop trailing "name"[, false] arguments of the wrap primitive
                while len(parts) > 1 and (parts[-1].strip().startswith('"') or
                                          parts[-1].strip() in ('false', 'true')):
                    parts = parts[:-1]
                s = ','.join(parts).strip()
                changed = True
                break
    return s


def scan_toolbox(tree: Dict[str, str], module: str):
    """-> (dict path -> MFile, Wrapper)"""
    files = {}
    wrapper = None
    for p, t in sorted(tree.items()):
        if p.endswith('.m'):
            files[p] = scan_m(p, t, module)
        elif p == module + '_wrapper.cpp':
            wrapper = scan_cpp(t)
    return files, wrapper
