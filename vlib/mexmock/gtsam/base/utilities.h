#pragma once
#include <sstream>
#include <cstdint>
