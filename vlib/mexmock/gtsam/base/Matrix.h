#pragma once
#include <gtsam/base/Vector.h>
namespace gtsam {
class Matrix {  // column-major like Eigen's default
 public:
  Matrix() : m_(0), n_(0) {}
  Matrix(int m, int n) : m_(m), n_(n), d_((size_t)m * n, 0.0) {}
  int rows() const { return m_; }
  int cols() const { return n_; }
  double &operator()(int i, int j) { return d_.at((size_t)j * m_ + i); }
  const double &operator()(int i, int j) const { return d_.at((size_t)j * m_ + i); }
 private:
  int m_, n_;
  std::vector<double> d_;
};
}  // namespace gtsam
