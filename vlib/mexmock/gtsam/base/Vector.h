// Stand-in for gtsam/base/Vector.h (no Eigen in the sandbox): dynamic double vector.
#pragma once
#include <iostream>
#include <map>
#include <memory>
#include <string>
#include <vector>
namespace gtsam {
class Vector {
 public:
  Vector() {}
  explicit Vector(int m) : d_(m, 0.0) {}
  int size() const { return (int)d_.size(); }
  double &operator()(int i) { return d_.at(i); }
  const double &operator()(int i) const { return d_.at(i); }
  bool operator==(const Vector &o) const { return d_ == o.d_; }
 private:
  std::vector<double> d_;
};
}  // namespace gtsam
