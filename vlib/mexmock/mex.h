// Mock of the MATLAB MEX C API used by matlab.h and by generated gateways (verification harness).
// Semantics follow the MathWorks documentation: numeric arrays are zero-initialised and
// column-major, mxGetProperty returns a copy, mxGetScalar converts from the array's class,
// mxArrayToString returns NULL for non-char arrays, mexErrMsg* do not return (here: throw).
#ifndef VERIF_MOCK_MEX_H
#define VERIF_MOCK_MEX_H
#include <stddef.h>
#include <stdint.h>
#include <stdio.h>
#include <stdlib.h>
#include <string.h>
#include <stdarg.h>
#include <stdbool.h>
#ifdef __cplusplus
extern "C" {
#endif

typedef size_t mwSize;
typedef size_t mwIndex;
typedef int32_t int32_T;
typedef uint16_t mxChar;
typedef enum {
  mxUNKNOWN_CLASS = 0, mxCELL_CLASS, mxSTRUCT_CLASS, mxLOGICAL_CLASS, mxCHAR_CLASS, mxVOID_CLASS,
  mxDOUBLE_CLASS, mxSINGLE_CLASS, mxINT8_CLASS, mxUINT8_CLASS, mxINT16_CLASS, mxUINT16_CLASS,
  mxINT32_CLASS, mxUINT32_CLASS, mxINT64_CLASS, mxUINT64_CLASS, mxFUNCTION_CLASS,
  mxOPAQUE_CLASS, mxOBJECT_CLASS
} mxClassID;
typedef enum { mxREAL = 0, mxCOMPLEX } mxComplexity;
struct mxArray_tag;
typedef struct mxArray_tag mxArray;

mxArray *mxCreateNumericArray(mwSize ndim, const mwSize *dims, mxClassID classid, mxComplexity f);
mxArray *mxCreateNumericMatrix(mwSize m, mwSize n, mxClassID classid, mxComplexity f);
mxArray *mxCreateDoubleMatrix(mwSize m, mwSize n, mxComplexity f);
mxArray *mxCreateDoubleScalar(double v);
mxArray *mxCreateString(const char *s);
mxArray *mxCreateStructMatrix(mwSize m, mwSize n, int nfields, const char **names);
mxArray *mxCreateLogicalScalar(bool v);
mxArray *mxDuplicateArray(const mxArray *a);
void mxDestroyArray(mxArray *a);
size_t mxGetM(const mxArray *a);
size_t mxGetN(const mxArray *a);
void *mxGetData(const mxArray *a);
double *mxGetPr(const mxArray *a);
double mxGetScalar(const mxArray *a);
mxClassID mxGetClassID(const mxArray *a);
bool mxIsDouble(const mxArray *a);
bool mxIsComplex(const mxArray *a);
bool mxIsChar(const mxArray *a);
char *mxArrayToString(const mxArray *a);
int mxGetString(const mxArray *a, char *buf, mwSize buflen);
void mxFree(void *p);
mxArray *mxGetProperty(const mxArray *a, mwIndex i, const char *name);
mxArray *mxGetField(const mxArray *a, mwIndex i, const char *name);
int mxAddField(mxArray *a, const char *name);
void mxSetFieldByNumber(mxArray *a, mwIndex i, int field, mxArray *v);
const char *mxGetClassName(const mxArray *a);

void mexErrMsgTxt(const char *msg);
void mexErrMsgIdAndTxt(const char *id, const char *fmt, ...);
int mexPrintf(const char *fmt, ...);
int mexCallMATLAB(int nlhs, mxArray *plhs[], int nrhs, mxArray *prhs[], const char *name);
int mexAtExit(void (*fn)(void));
const mxArray *mexGetVariablePtr(const char *ws, const char *name);
mxArray *mexGetVariable(const char *ws, const char *name);
int mexPutVariable(const char *ws, const char *name, const mxArray *v);
/* the gateway entry point has C linkage, as in MathWorks' mex.h */
void mexFunction(int nlhs, mxArray *plhs[], int nrhs, const mxArray *prhs[]);
#ifdef __cplusplus
}
#endif
#endif
