// Mock MEX runtime (see mex.h).  Linked into the C18 shim library and into C11 gateways.
#include "mex.h"

#include <functional>
#include <map>
#include <set>
#include <stdexcept>
#include <string>
#include <vector>

struct mxArray_tag {
  mxClassID cls = mxDOUBLE_CLASS;
  size_t m = 0, n = 0;
  std::vector<unsigned char> data;  // element bytes (column-major); chars as 1 byte each
  bool complex = false;
  // MATLAB object / struct part
  std::string classname;                                  // non-empty for objects
  std::vector<std::pair<std::string, mxArray *>> fields;  // properties / struct fields
  bool is_enum = false;
  double enum_value = 0;
};

struct MexError : public std::runtime_error {
  explicit MexError(const std::string &m) : std::runtime_error(m) {}
};

static std::set<mxArray *> &live() {
  static std::set<mxArray *> s;
  return s;
}
static std::map<std::string, mxArray *> &globals() {
  static std::map<std::string, mxArray *> g;
  return g;
}
static std::vector<void (*)(void)> &atexit_fns() {
  static std::vector<void (*)(void)> v;
  return v;
}
static std::string &printed() {
  static std::string s;
  return s;
}

static size_t elsize(mxClassID c) {
  switch (c) {
    case mxDOUBLE_CLASS: case mxINT64_CLASS: case mxUINT64_CLASS: return 8;
    case mxSINGLE_CLASS: case mxINT32_CLASS: case mxUINT32_CLASS: return 4;
    case mxINT16_CLASS: case mxUINT16_CLASS: return 2;
    case mxCHAR_CLASS: case mxLOGICAL_CLASS: case mxINT8_CLASS: case mxUINT8_CLASS: return 1;
    default: return 8;
  }
}

static mxArray *fresh(mxClassID c, size_t m, size_t n) {
  mxArray *a = new mxArray_tag();
  a->cls = c; a->m = m; a->n = n;
  a->data.assign(m * n * elsize(c), 0);
  live().insert(a);
  return a;
}

extern "C++" {
size_t mock_live_arrays() { return live().size(); }
const std::string &mock_printed() { return printed(); }
void mock_clear_printed() { printed().clear(); }
void mock_run_atexit() {
  std::vector<void (*)(void)> fns = atexit_fns();
  std::set<void (*)(void)> seen;
  for (auto f : fns) if (seen.insert(f).second) f();
  atexit_fns().clear();
}
size_t mock_atexit_registered() { return atexit_fns().size(); }
mxArray *mock_new_object(const char *classname) {
  mxArray *a = fresh(mxOBJECT_CLASS, 1, 1);
  a->classname = classname;
  return a;
}
void mock_set_property(mxArray *obj, const char *name, mxArray *value) {
  for (auto &f : obj->fields) if (f.first == name) { f.second = value; return; }
  obj->fields.push_back({name, value});
}
mxArray *mock_get_property_ref(const mxArray *obj, const char *name) {
  for (auto &f : obj->fields) if (f.first == name) return f.second;
  return nullptr;
}
mxArray *mock_new_enum(const char *classname, double v) {
  mxArray *a = fresh(mxOBJECT_CLASS, 1, 1);
  a->classname = classname; a->is_enum = true; a->enum_value = v;
  return a;
}
bool mock_is_enum(const mxArray *a) { return a->is_enum; }
double mock_enum_value(const mxArray *a) { return a->enum_value; }
// handler for mexCallMATLAB; return true if handled
typedef std::function<bool(int, mxArray **, int, mxArray **, const std::string &)> CallHandler;
static CallHandler &handler() { static CallHandler h; return h; }
void mock_set_call_handler(CallHandler h) { handler() = h; }
void mock_reset() {
  for (auto &g : globals()) (void)g;
  globals().clear();
  atexit_fns().clear();
  printed().clear();
}
}

// ---------------------------------------------------------------- creation
mxArray *mxCreateNumericArray(mwSize ndim, const mwSize *dims, mxClassID classid, mxComplexity) {
  size_t m = ndim >= 1 ? dims[0] : 1, n = 1;
  for (mwSize i = 1; i < ndim; ++i) n *= dims[i];
  return fresh(classid, m, n);
}
mxArray *mxCreateNumericMatrix(mwSize m, mwSize n, mxClassID classid, mxComplexity) {
  return fresh(classid, m, n);
}
mxArray *mxCreateDoubleMatrix(mwSize m, mwSize n, mxComplexity) { return fresh(mxDOUBLE_CLASS, m, n); }
mxArray *mxCreateDoubleScalar(double v) {
  mxArray *a = fresh(mxDOUBLE_CLASS, 1, 1);
  memcpy(a->data.data(), &v, 8);
  return a;
}
mxArray *mxCreateLogicalScalar(bool v) {
  mxArray *a = fresh(mxLOGICAL_CLASS, 1, 1);
  a->data[0] = v ? 1 : 0;
  return a;
}
mxArray *mxCreateString(const char *s) {
  size_t len = strlen(s);
  mxArray *a = fresh(mxCHAR_CLASS, len ? 1 : 0, len);
  if (len) memcpy(a->data.data(), s, len);
  return a;
}
mxArray *mxCreateStructMatrix(mwSize m, mwSize n, int nfields, const char **names) {
  mxArray *a = fresh(mxSTRUCT_CLASS, m, n);
  for (int i = 0; i < nfields; ++i) a->fields.push_back({names[i], nullptr});
  return a;
}
mxArray *mxDuplicateArray(const mxArray *src) {
  mxArray *a = new mxArray_tag(*src);
  for (auto &f : a->fields) if (f.second) f.second = mxDuplicateArray(f.second);
  live().insert(a);
  return a;
}
void mxDestroyArray(mxArray *a) {
  if (!a) return;
  if (!live().count(a)) throw std::logic_error("mxDestroyArray: array destroyed twice / unknown");
  live().erase(a);
  for (auto &f : a->fields) if (f.second) mxDestroyArray(f.second);
  delete a;
}

// ---------------------------------------------------------------- access
size_t mxGetM(const mxArray *a) { return a->m; }
size_t mxGetN(const mxArray *a) { return a->n; }
void *mxGetData(const mxArray *a) { return (void *)a->data.data(); }
double *mxGetPr(const mxArray *a) { return a->cls == mxDOUBLE_CLASS ? (double *)a->data.data() : nullptr; }
mxClassID mxGetClassID(const mxArray *a) { return a->cls; }
bool mxIsDouble(const mxArray *a) { return a->cls == mxDOUBLE_CLASS; }
bool mxIsComplex(const mxArray *a) { return a->complex; }
bool mxIsChar(const mxArray *a) { return a->cls == mxCHAR_CLASS; }
const char *mxGetClassName(const mxArray *a) {
  if (!a->classname.empty()) return a->classname.c_str();
  switch (a->cls) {
    case mxDOUBLE_CLASS: return "double"; case mxCHAR_CLASS: return "char";
    case mxLOGICAL_CLASS: return "logical"; case mxUINT64_CLASS: return "uint64";
    case mxINT32_CLASS: return "int32"; case mxSTRUCT_CLASS: return "struct";
    default: return "numeric";
  }
}
double mxGetScalar(const mxArray *a) {
  if (a->is_enum) return a->enum_value;
  if (a->data.empty()) return 0;  // documented: undefined for empty arrays
  const unsigned char *p = a->data.data();
  switch (a->cls) {
    case mxDOUBLE_CLASS: { double v; memcpy(&v, p, 8); return v; }
    case mxSINGLE_CLASS: { float v; memcpy(&v, p, 4); return v; }
    case mxINT64_CLASS: { int64_t v; memcpy(&v, p, 8); return (double)v; }
    case mxUINT64_CLASS: { uint64_t v; memcpy(&v, p, 8); return (double)v; }
    case mxINT32_CLASS: { int32_t v; memcpy(&v, p, 4); return v; }
    case mxUINT32_CLASS: { uint32_t v; memcpy(&v, p, 4); return v; }
    case mxINT16_CLASS: { int16_t v; memcpy(&v, p, 2); return v; }
    case mxUINT16_CLASS: { uint16_t v; memcpy(&v, p, 2); return v; }
    case mxINT8_CLASS: return (signed char)p[0];
    case mxUINT8_CLASS: case mxLOGICAL_CLASS: case mxCHAR_CLASS: return p[0];
    default: return 0;
  }
}
char *mxArrayToString(const mxArray *a) {
  if (a->cls != mxCHAR_CLASS) return nullptr;
  size_t len = a->m * a->n;
  char *s = (char *)malloc(len + 1);
  // column-major characters of a 1xN (or MxN) char array, row order for 1xN
  memcpy(s, a->data.data(), len);
  s[len] = 0;
  return s;
}
int mxGetString(const mxArray *a, char *buf, mwSize buflen) {
  if (a->cls != mxCHAR_CLASS) return 1;
  size_t len = a->m * a->n;
  if (len + 1 > buflen) return 1;
  memcpy(buf, a->data.data(), len);
  buf[len] = 0;
  return 0;
}
void mxFree(void *p) { free(p); }
mxArray *mxGetProperty(const mxArray *a, mwIndex, const char *name) {
  for (auto &f : a->fields)
    if (f.first == name) return f.second ? mxDuplicateArray(f.second) : nullptr;  // a copy
  return nullptr;
}
mxArray *mxGetField(const mxArray *a, mwIndex, const char *name) {
  for (auto &f : a->fields) if (f.first == name) return f.second;
  return nullptr;
}
int mxAddField(mxArray *a, const char *name) {
  for (size_t i = 0; i < a->fields.size(); ++i) if (a->fields[i].first == name) return (int)i;
  a->fields.push_back({name, nullptr});
  return (int)a->fields.size() - 1;
}
void mxSetFieldByNumber(mxArray *a, mwIndex, int field, mxArray *v) {
  if (a->fields[field].second) mxDestroyArray(a->fields[field].second);
  a->fields[field].second = v;
}

// ---------------------------------------------------------------- mex*
void mexErrMsgTxt(const char *msg) { throw MexError(msg ? msg : ""); }
void mexErrMsgIdAndTxt(const char *id, const char *fmt, ...) {
  char buf[2048];
  va_list ap; va_start(ap, fmt);
  vsnprintf(buf, sizeof buf, fmt ? fmt : "", ap);
  va_end(ap);
  throw MexError(std::string(id ? id : "") + ": " + buf);
}
int mexPrintf(const char *fmt, ...) {
  char buf[4096];
  va_list ap; va_start(ap, fmt);
  int n = vsnprintf(buf, sizeof buf, fmt, ap);
  va_end(ap);
  printed() += buf;
  return n;
}
int mexAtExit(void (*fn)(void)) { atexit_fns().push_back(fn); return 0; }
const mxArray *mexGetVariablePtr(const char *, const char *name) {
  auto it = globals().find(name);
  return it == globals().end() ? nullptr : it->second;
}
mxArray *mexGetVariable(const char *, const char *name) {
  auto it = globals().find(name);
  return it == globals().end() ? nullptr : mxDuplicateArray(it->second);
}
int mexPutVariable(const char *, const char *name, const mxArray *v) {
  auto it = globals().find(name);
  if (it != globals().end()) mxDestroyArray(it->second);
  globals()[name] = mxDuplicateArray(v);
  return 0;
}
int mexCallMATLAB(int nlhs, mxArray *plhs[], int nrhs, mxArray *prhs[], const char *name) {
  std::string fn(name ? name : "");
  if (handler() && handler()(nlhs, plhs, nrhs, prhs, fn)) return 0;
  if (fn == "int32") {  // numeric / enumeration -> int32
    mxArray *r = fresh(mxINT32_CLASS, 1, 1);
    int32_t v = (int32_t)mxGetScalar(prhs[0]);
    memcpy(r->data.data(), &v, 4);
    plhs[0] = r;
    return 0;
  }
  if (nrhs == 1 && prhs[0]->cls == mxDOUBLE_CLASS) {  // EnumClass(value)
    plhs[0] = mock_new_enum(name, mxGetScalar(prhs[0]));
    return 0;
  }
  throw MexError("mexCallMATLAB: no handler for '" + fn + "'");
}

// ---------------------------------------------------------------- C API for the Python emulator
extern "C" void mexFunction(int nlhs, mxArray *plhs[], int nrhs, const mxArray *prhs[])
    __attribute__((weak));
typedef int (*CHandler)(int, mxArray **, int, mxArray **, const char *);
static CHandler g_c_handler = nullptr;
extern "C" {
void emu_set_handler(CHandler h) {
  g_c_handler = h;
  if (h) mock_set_call_handler([](int nl, mxArray **pl, int nr, mxArray **pr,
                                  const std::string &name) {
    return g_c_handler(nl, pl, nr, pr, name.c_str()) != 0; });
}
mxArray *emu_double(double v) { return mxCreateDoubleScalar(v); }
mxArray *emu_logical(int v) { return mxCreateLogicalScalar(v != 0); }
mxArray *emu_string(const char *s) { return mxCreateString(s); }
mxArray *emu_uint64(unsigned long long v) {
  mxArray *a = mxCreateNumericMatrix(1, 1, mxUINT64_CLASS, mxREAL);
  memcpy(mxGetData(a), &v, 8);
  return a;
}
mxArray *emu_object(const char *cls) { return mock_new_object(cls); }
mxArray *emu_enum(const char *cls, double v) { return mock_new_enum(cls, v); }
void emu_set_prop(mxArray *obj, const char *name, mxArray *v) { mock_set_property(obj, name, v); }
mxArray *emu_get_prop(mxArray *obj, const char *name) { return mock_get_property_ref(obj, name); }
mxArray *emu_dup(mxArray *a) { return mxDuplicateArray(a); }
void emu_free(mxArray *a) { mxDestroyArray(a); }
const char *emu_class(mxArray *a) { return mxGetClassName(a); }
int emu_classid(mxArray *a) { return (int)mxGetClassID(a); }
double emu_scalar(mxArray *a) { return mxGetScalar(a); }
unsigned long long emu_u64(mxArray *a) { unsigned long long v = 0; memcpy(&v, mxGetData(a), 8); return v; }
int emu_is_enum(mxArray *a) { return mock_is_enum(a) ? 1 : 0; }
unsigned long emu_numel(mxArray *a) { return (unsigned long)(mxGetM(a) * mxGetN(a)); }
int emu_string_of(mxArray *a, char *buf, int n) { return mxGetString(a, buf, n); }
unsigned long emu_live_arrays() { return (unsigned long)mock_live_arrays(); }
void emu_run_atexit() { mock_run_atexit(); }
unsigned long emu_atexit_registered() { return (unsigned long)mock_atexit_registered(); }
// call the gateway; returns 0 ok, 1 MATLAB error (message in err), 2 other C++ exception
int emu_call(int nlhs, mxArray **plhs, int nrhs, mxArray **prhs, char *err, int nerr) {
  try {
    mexFunction(nlhs, plhs, nrhs, (const mxArray **)prhs);
    return 0;
  } catch (const MexError &e) {
    snprintf(err, nerr, "%s", e.what());
    return 1;
  } catch (const std::exception &e) {
    snprintf(err, nerr, "%s", e.what());
    return 2;
  } catch (...) {
    snprintf(err, nerr, "unknown exception");
    return 3;
  }
}
}
