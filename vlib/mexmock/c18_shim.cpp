// extern "C" shims around the *unmodified* /repo/matlab.h for the C18 check (driven via ctypes).
#include <matlab.h>

#include <functional>
#include <map>
#include <memory>
#include <string>
#include <vector>

// mock API (mexmock.cpp)
size_t mock_live_arrays();
mxArray *mock_new_object(const char *classname);
void mock_set_property(mxArray *obj, const char *name, mxArray *value);
mxArray *mock_get_property_ref(const mxArray *obj, const char *name);
typedef std::function<bool(int, mxArray **, int, mxArray **, const std::string &)> CallHandler;
void mock_set_call_handler(CallHandler h);
struct MexError;

// ---------------------------------------------------------------- instrumented class
static long g_live = 0;
static long g_next_id = 1;
struct Probe {
  long id;
  Probe() : id(g_next_id++) { ++g_live; }
  virtual ~Probe() { --g_live; }
};
struct DerivedProbe : public Probe {};
typedef std::shared_ptr<Probe> ProbePtr;
static std::map<long, ProbePtr> g_owners;  // C++-side owners by object id

#define GUARD(expr)                         \
  try { expr; return 0; }                   \
  catch (const std::exception &) { return 1; } \
  catch (...) { return 2; }

extern "C" {

long live_objects() { return g_live; }
unsigned long live_arrays() { return (unsigned long)mock_live_arrays(); }

// ---- round trips: out = unwrap<T>(wrap<T>(v))
int rt_bool(unsigned char v, unsigned char *out) {
  GUARD({ mxArray *a = wrap<bool>(v != 0); *out = unwrap<bool>(a) ? 1 : 0; mxDestroyArray(a); })
}
int rt_char(signed char v, signed char *out) {
  GUARD({ mxArray *a = wrap<char>((char)v); *out = (signed char)unwrap<char>(a); mxDestroyArray(a); })
}
int rt_uchar(unsigned char v, unsigned char *out) {
  GUARD({ mxArray *a = wrap<unsigned char>(v); *out = unwrap<unsigned char>(a); mxDestroyArray(a); })
}
int rt_int(int v, int *out) {
  GUARD({ mxArray *a = wrap<int>(v); *out = unwrap<int>(a); mxDestroyArray(a); })
}
int rt_size_t(unsigned long long v, unsigned long long *out) {
  GUARD({ mxArray *a = wrap<size_t>((size_t)v); *out = unwrap<size_t>(a); mxDestroyArray(a); })
}
int rt_double(double v, double *out) {
  GUARD({ mxArray *a = wrap<double>(v); *out = unwrap<double>(a); mxDestroyArray(a); })
}
int rt_string(const char *s, char *out, unsigned long cap) {
  GUARD({ mxArray *a = wrap<string>(std::string(s)); std::string r = unwrap<string>(a);
          mxDestroyArray(a);
          if (r.size() + 1 > cap) return 3;
          memcpy(out, r.c_str(), r.size() + 1); })
}
int rt_vector(const double *in, int m, double *out, int *mo, int kind) {
  GUARD({
    gtsam::Vector v(m);
    for (int i = 0; i < m; ++i) v(i) = in[i];
    mxArray *a; gtsam::Vector r;
    if (kind == 0) { a = wrap<gtsam::Vector>(v); r = unwrap<gtsam::Vector>(a); }
    else if (kind == 2) { a = wrap<gtsam::Point2>(gtsam::Point2(v)); r = unwrap<gtsam::Point2>(a); }
    else { a = wrap<gtsam::Point3>(gtsam::Point3(v)); r = unwrap<gtsam::Point3>(a); }
    // shape of the MATLAB array
    mo[1] = (int)mxGetM(a); mo[2] = (int)mxGetN(a);
    mxDestroyArray(a);
    mo[0] = r.size();
    for (int i = 0; i < r.size(); ++i) out[i] = r(i);
  })
}
int rt_matrix(const double *in, int m, int n, double *out, int *shape, double *matlab_data) {
  // in: row-major m x n;  out: row-major of the result;  matlab_data: raw column-major array
  GUARD({
    gtsam::Matrix A(m, n);
    for (int i = 0; i < m; ++i) for (int j = 0; j < n; ++j) A(i, j) = in[i * n + j];
    mxArray *a = wrap<gtsam::Matrix>(A);
    shape[2] = (int)mxGetM(a); shape[3] = (int)mxGetN(a);
    size_t cnt = mxGetM(a) * mxGetN(a);
    if (cnt <= (size_t)(m * n)) memcpy(matlab_data, mxGetPr(a), cnt * sizeof(double));
    gtsam::Matrix R = unwrap<gtsam::Matrix>(a);
    mxDestroyArray(a);
    shape[0] = R.rows(); shape[1] = R.cols();
    if (R.rows() * R.cols() <= m * n)
      for (int i = 0; i < R.rows(); ++i) for (int j = 0; j < R.cols(); ++j)
        out[i * R.cols() + j] = R(i, j);
  })
}

// ---- unwrap of a given MATLAB array: kind selects T; returns 0 ok (value in *out), 1 error
static mxArray *build(int cls, int m, int n, const double *vals) {
  mxClassID c = (mxClassID)cls;
  mxArray *a = mxCreateNumericMatrix(m, n, c, mxREAL);
  unsigned char *p = (unsigned char *)mxGetData(a);
  for (int i = 0; i < m * n; ++i) {
    double v = vals[i];
    switch (c) {
      case mxDOUBLE_CLASS: ((double *)p)[i] = v; break;
      case mxSINGLE_CLASS: ((float *)p)[i] = (float)v; break;
      case mxINT64_CLASS: ((int64_t *)p)[i] = (int64_t)v; break;
      case mxUINT64_CLASS: ((uint64_t *)p)[i] = (uint64_t)v; break;
      case mxINT32_CLASS: ((int32_t *)p)[i] = (int32_t)v; break;
      case mxUINT32_CLASS: ((uint32_t *)p)[i] = (uint32_t)v; break;
      case mxINT16_CLASS: ((int16_t *)p)[i] = (int16_t)v; break;
      case mxUINT16_CLASS: ((uint16_t *)p)[i] = (uint16_t)v; break;
      case mxINT8_CLASS: ((int8_t *)p)[i] = (int8_t)v; break;
      default: p[i] = (unsigned char)v; break;
    }
  }
  return a;
}
int unwrap_of(int kind, int cls, int m, int n, const double *vals, double *out, int *count) {
  mxArray *a = build(cls, m, n, vals);
  int rc = 0;
  *count = 0;
  try {
    switch (kind) {
      case 0: out[0] = unwrap<bool>(a); *count = 1; break;
      case 1: out[0] = unwrap<char>(a); *count = 1; break;
      case 2: out[0] = unwrap<unsigned char>(a); *count = 1; break;
      case 3: out[0] = unwrap<int>(a); *count = 1; break;
      case 4: out[0] = (double)unwrap<size_t>(a); *count = 1; break;
      case 5: out[0] = unwrap<double>(a); *count = 1; break;
      case 6: { gtsam::Vector v = unwrap<gtsam::Vector>(a); *count = v.size();
                for (int i = 0; i < v.size() && i < 64; ++i) out[i] = v(i); break; }
      case 7: { gtsam::Matrix M = unwrap<gtsam::Matrix>(a); *count = M.rows() * M.cols();
                for (int i = 0; i < M.rows(); ++i) for (int j = 0; j < M.cols(); ++j)
                  if (i * M.cols() + j < 64) out[i * M.cols() + j] = M(i, j);
                break; }
      case 8: { std::string s = unwrap<string>(a); *count = (int)s.size();
                for (size_t i = 0; i < s.size() && i < 64; ++i) out[i] = (unsigned char)s[i];
                break; }
    }
  } catch (const std::exception &) { rc = 1; } catch (...) { rc = 2; }
  mxDestroyArray(a);
  return rc;
}

// ---- object handles
static bool class_ctor(int nlhs, mxArray **plhs, int nrhs, mxArray **prhs, const std::string &name) {
  // what the generated classdef constructor does with (key, pointer[, 'void'])
  if (name != "Probe" && name != "DerivedProbe") return false;
  if (nrhs < 2) return false;
  mxArray *obj = mock_new_object(name.c_str());
  void *raw = *reinterpret_cast<void **>(mxGetData(prhs[1]));
  mxArray *ptr = mxCreateNumericMatrix(1, 1, mxUINT32OR64_CLASS, mxREAL);
  if (nrhs == 3) {  // virtual: up-cast from shared_ptr<void>, as the generated routine does
    std::shared_ptr<void> *asVoid = reinterpret_cast<std::shared_ptr<void> *>(raw);
    if (name == "DerivedProbe")
      raw = new std::shared_ptr<DerivedProbe>(std::static_pointer_cast<DerivedProbe>(*asVoid));
    else
      raw = new std::shared_ptr<Probe>(std::static_pointer_cast<Probe>(*asVoid));
  }
  *reinterpret_cast<void **>(mxGetData(ptr)) = raw;
  mock_set_property(obj, ("ptr_" + name).c_str(), ptr);
  plhs[0] = obj;
  return true;
}
void h_init() {
  mock_set_call_handler(class_ctor);
  // RTTI registry as the generated _RTTIRegister builds it
  const char *names[2];
  std::string n1 = typeid(Probe).name(), n2 = typeid(DerivedProbe).name();
  names[0] = n1.c_str(); names[1] = n2.c_str();
  mxArray *reg = mxCreateStructMatrix(1, 1, 2, names);
  mxSetFieldByNumber(reg, 0, 0, mxCreateString("Probe"));
  mxSetFieldByNumber(reg, 0, 1, mxCreateString("DerivedProbe"));
  mexPutVariable("global", "gtsamwrap_rttiRegistry", reg);
  mxDestroyArray(reg);
}
long h_new(int derived) {
  ProbePtr p = derived ? ProbePtr(new DerivedProbe()) : ProbePtr(new Probe());
  g_owners[p->id] = p;
  return p->id;
}
int h_drop_owner(long id) { return g_owners.erase(id) ? 0 : 1; }
long h_use_count(long id) {
  auto it = g_owners.find(id);
  return it == g_owners.end() ? -1 : it->second.use_count();
}
// wrap an owned object; returns the MATLAB handle object
int h_wrap(long id, int isVirtual, void **handle) {
  auto it = g_owners.find(id);
  if (it == g_owners.end()) return 9;
  GUARD({ *handle = wrap_shared_ptr(it->second, "Probe", isVirtual != 0); })
}
static const char *prop_of(mxArray *h) {
  return std::string(mxGetClassName(h)) == "DerivedProbe" ? "ptr_DerivedProbe" : "ptr_Probe";
}
int h_unwrap_shared(void *handle, long *id, long *use_count, void **addr) {
  GUARD({ mxArray *h = (mxArray *)handle;
          std::shared_ptr<Probe> p = unwrap_shared_ptr<Probe>(h, prop_of(h));
          *id = p->id; *addr = p.get(); *use_count = p.use_count() - 1; })
}
int h_unwrap_ptr(void *handle, void **addr) {
  GUARD({ mxArray *h = (mxArray *)handle; *addr = unwrap_ptr<Probe>(h, prop_of(h)); })
}
void *h_object_address(void *handle) {
  mxArray *h = (mxArray *)handle;
  mxArray *ptr = mock_get_property_ref(h, prop_of(h));
  std::shared_ptr<Probe> *spp = *reinterpret_cast<std::shared_ptr<Probe> **>(mxGetData(ptr));
  return spp->get();
}
// release a MATLAB handle the way the generated deconstructor routine does (delete self)
int h_release(void *handle) {
  GUARD({ mxArray *h = (mxArray *)handle;
          mxArray *ptr = mock_get_property_ref(h, prop_of(h));
          std::shared_ptr<Probe> *spp = *reinterpret_cast<std::shared_ptr<Probe> **>(mxGetData(ptr));
          delete spp;
          mxDestroyArray(h); })
}
}
