"""Compare refinst.expected(model) with instproj.p_scope(instantiated tree).

Returns Failure objects whose clause says which property the disagreement belongs to:
  C08.* - existence / order / naming / C++ spelling / pass-through of items and member products
  C02.* - types, names and defaults inside an instantiation (substitution)
"""
from __future__ import annotations

from typing import List

from .runner import Failure


def _key(it):
    if it['k'] == 'ns':
        return ('ns', it['name'])
    if it['k'] == 'pass':
        return ('pass', repr(it['item']))
    return (it['k'], it['name'], it['cpp'], tuple(it.get('path', ())))


def _short(k):
    return '%s %s' % (k[0], ' '.join(str(x) for x in k[1:3]))[:120]


def compare_scope(exp: List[dict], act: List[dict], where: str, out: List[Failure]):
    e_main = [e for e in exp if not e.get('from_typedef')]
    e_td = [e for e in exp if e.get('from_typedef')]
    rest = list(act)
    a_td = []
    for e in e_td:
        idx = None
        for i, a in enumerate(rest):
            if a['k'] == e['k'] and a['name'] == e['name']:
                idx = i  # keep the last match: typedef instantiations follow the others
        if idx is None:
            out.append(Failure('C08.typedef-missing',
                               '%s: no instantiation named %s for typedef' % (where, e['name'])))
        else:
            a_td.append((e, rest.pop(idx)))
    ek = [_key(e) for e in e_main]
    ak = [_key(a) for a in rest]
    if ek != ak:
        # classify
        if sorted(map(repr, ek)) == sorted(map(repr, ak)):
            out.append(Failure('C08.order', '%s: expected order %s, got %s' % (
                where, [_short(k) for k in ek], [_short(k) for k in ak])))
        else:
            missing = [k for k in ek if k not in ak]
            extra = [k for k in ak if k not in ek]
            names_e = [(k[0], k[1]) for k in ek]
            names_a = [(k[0], k[1]) for k in ak]
            if names_e == names_a:
                clause = 'C08.cpp-name'
            elif [k[0] for k in ek] == [k[0] for k in ak] and \
                    [k[2:] for k in ek if k[0] != 'pass' and k[0] != 'ns'] == \
                    [k[2:] for k in ak if k[0] != 'pass' and k[0] != 'ns'] and \
                    [k for k in ek if k[0] in ('pass', 'ns')] == \
                    [k for k in ak if k[0] in ('pass', 'ns')]:
                clause = 'C08.inst-name'
            elif any(k[0] == 'pass' for k in missing + extra) and \
                    not any(k[0] != 'pass' for k in missing + extra):
                clause = 'C08.passthrough'
            else:
                clause = 'C08.items'
            out.append(Failure(clause, '%s: missing %s; unexpected %s' % (
                where, [_short(k) for k in missing][:4], [_short(k) for k in extra][:4])))
        return
    pairs = list(zip(e_main, rest)) + a_td
    for e, a in pairs:
        if e['k'] == 'ns':
            compare_scope(e['items'], a['items'], where + '::' + e['name'], out)
        elif e['k'] == 'class':
            if e.get('from_typedef') and (e['cpp'] != a['cpp'] or e['path'] != list(a['path'])):
                out.append(Failure('C08.cpp-name', '%s: typedef %s should denote %s in %s, got %s '
                                   'in %s' % (where, e['name'], e['cpp'], e['path'], a['cpp'],
                                              a['path'])))
            compare_class(e, a, where, out)
        elif e['k'] == 'func':
            if e.get('from_typedef') and e['cpp'] != a['cpp']:
                out.append(Failure('C08.cpp-name', '%s: typedef %s should denote %s, got %s' % (
                    where, e['name'], e['cpp'], a['cpp'])))
            compare_callable(e, a, '%s %s' % (where, e['name']), out, 'func')
        elif e['k'] == 'decl':
            if e['cpp'] != a['cpp']:
                out.append(Failure('C08.cpp-name', '%s: typedef %s should denote %s, got %s' % (
                    where, e['name'], e['cpp'], a['cpp'])))


def _same(x, y, this):
    from .refinst import alts
    if isinstance(x, tuple):
        return len(x) == len(y) and all(_same(i, j, this) for i, j in zip(x, y))
    if this is None or not isinstance(x, str):
        return x == y
    return y in alts(x, this[0], this[1])


def compare_callable(e, a, where, out, kind, this=None):
    if 'ret' in e and not _same(e['ret'], a['ret'], this):
        out.append(Failure('C02.ret-type', '%s: return %r, expected %r' % (where, a['ret'],
                                                                          e['ret'])))
    if len(e['args']) != len(a['args']):
        out.append(Failure('C02.arg-count', '%s: %d args, expected %d' % (
            where, len(a['args']), len(e['args']))))
        return
    for i, (x, y) in enumerate(zip(e['args'], a['args'])):
        if not _same(x[0], y[0], this):
            out.append(Failure('C02.arg-type', '%s arg %d: %r, expected %r' % (where, i, y[0],
                                                                              x[0])))
        if x[1:] != y[1:]:
            out.append(Failure('C02.arg-name-default', '%s arg %d: %r, expected %r' % (
                where, i, y[1:], x[1:])))
    if 'const' in e and e['const'] != a.get('const'):
        out.append(Failure('C02.flags', '%s: const flag' % where))


def compare_class(e, a, where, out):
    w = '%s class %s' % (where, e['name'])
    if e['virtual'] != a['virtual']:
        out.append(Failure('C02.flags', '%s: virtual flag' % w))
    this = e.get('this')
    if not _same(e['parent'], a['parent'], this):
        out.append(Failure('C02.parent-type', '%s: base %r, expected %r' % (w, a['parent'],
                                                                           e['parent'])))
    for grp in ('ctors', 'methods', 'statics'):
        # a constructor has no C++ spelling of its own (template arguments are deduced)
        en = [(m['name'], m['cpp'] if grp != 'ctors' else '') for m in e[grp]]
        an = [(m['name'], m['cpp'] if grp != 'ctors' else '') for m in a[grp]]
        if en != an:
            out.append(Failure('C08.member-product', '%s %s: expected %s, got %s' % (
                w, grp, en[:8], an[:8])))
            continue
        for x, y in zip(e[grp], a[grp]):
            compare_callable(x, y, '%s %s %s' % (w, grp[:-1], x['name']), out, grp, this)
    if [p[1:] for p in e['props']] != [p[1:] for p in a['props']]:
        out.append(Failure('C08.member-product', '%s properties: expected %s, got %s' % (
            w, e['props'], a['props'])))
    else:
        for x, y in zip(e['props'], a['props']):
            if not _same(x[0], y[0], this):
                out.append(Failure('C02.prop-type', '%s property %s: %r, expected %r' % (
                    w, x[1], y[0], x[0])))
    if [o['op'] for o in e['ops']] != [o['op'] for o in a['ops']]:
        out.append(Failure('C08.member-product', '%s operators: expected %s, got %s' % (
            w, [o['op'] for o in e['ops']], [o['op'] for o in a['ops']])))
    else:
        for x, y in zip(e['ops'], a['ops']):
            before = len(out)
            compare_callable(x, y, '%s operator%s' % (w, x['op']), out, 'op', this)
            for f in out[before:]:
                f.clause = f.clause.replace('C02.arg-type', 'C02.op-type').replace(
                    'C02.ret-type', 'C02.op-type')
    if e['enums'] != a['enums']:
        out.append(Failure('C08.passthrough', '%s enums: expected %s, got %s' % (
            w, e['enums'], a['enums'])))
    if [d['name'] for d in e['dunders']] != [d['name'] for d in a['dunders']]:
        out.append(Failure('C08.passthrough', '%s dunder methods: expected %s, got %s' % (
            w, e['dunders'], a['dunders'])))
    else:
        for x, y in zip(e['dunders'], a['dunders']):
            compare_callable(x, y, '%s __%s__' % (w, x['name']), out, 'dunder', this)


def compare(exp, act) -> List[Failure]:
    out: List[Failure] = []
    compare_scope(exp, act, '', out)
    return out
