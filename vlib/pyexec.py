"""Call plans and predictions for executing generated pybind11 modules (C04).

plan(model) -> list of steps; each step is executed by DRIVER (a stand-alone script run in a
fresh CPython) and has a prediction computed from the *model* only:
  trace  - the record(s) the mock library must have logged (entity|signature|this|args)
  result - what Python must receive
Values whose identity cannot be known in advance (ids of copies) are wildcards.
"""
from __future__ import annotations

import itertools
import keyword
import re
from typing import Dict, List, Optional

from . import model as M
from .cxxmock import h32, sig_of, _sig_type

WILD = '*'

DEFAULT_SHOWN = {
    'true': 'true', 'false': 'false', '0': None, '-1': '-1', '42': '42', '(1 + 2)': '3',
    '7': None, '100': None, '1.5': '1.5d', '-9.81': '-9.81d', '1e-9': '1e-09d', '0.0': '0d',
    '0.5f': '0.5f', "'c'": "'c'", "'('": "'('", "','": "','",
    '"hello"': '"hello"', '""': '""', '"a, b"': '"a, b"', '"(unbalanced"': '"(unbalanced"',
    '"} ;"': '"} ;"', '"it\'s"': '"it\'s"', '"<"': '"<"',
}


def shown_default(t: M.Type, text: str, enum_values) -> str:
    if t.name in ('int',) and text in ('0', '7', '100', '-1', '42'):
        return text
    if t.name == 'size_t':
        return text + 'z'
    if t.name == 'unsigned char':
        return 'u' + text
    if t.name == 'double' and text in ('0', '7', '100', '-1', '42'):
        return text + 'd'
    if t.name == 'double' and text == '0.5f':
        return '0.5d'
    if '::' in text and text.split('::')[-1] in enum_values:
        return 'enum:%d' % enum_values[text.split('::')[-1]]
    s = DEFAULT_SHOWN.get(text)
    if s is None:
        raise KeyError('no shown form for default %r of type %s' % (text, t.name))
    return s


def pyname(name: str) -> str:
    return name + '_' if name in keyword.kwlist else name


class Planner:
    def __init__(self, m: M.Module, draw):
        """draw(strategy) supplies the values (Hypothesis)."""
        self.m = m
        self.draw = draw
        self.steps: List[dict] = []
        self.classes: Dict[str, dict] = {}      # qualified cpp -> info
        self.enums: Dict[str, dict] = {}        # qualified -> {'path', 'values': {name: int}}
        self.pool: Dict[str, List[str]] = {}    # qualified class -> python variable names
        self.nvar = 0
        self.enum_values = {}

    # ---- discovery
    def collect(self, scope, path):
        for it in scope.content:
            if isinstance(it, M.Namespace):
                self.collect(it, path + (it.name,))
            elif isinstance(it, M.Enum):
                self.enums['::'.join(path + (it.name,))] = {
                    'py': list(path) + [it.name],
                    'values': {n: 10 * i + 3 for i, n in enumerate(it.enumerators)}}
            elif isinstance(it, M.Class):
                for x in it.members:
                    if isinstance(x, M.Enum) and it.template is None:
                        self.enums['::'.join(path + (it.name, x.name))] = {
                            'py': list(path) + [it.name, x.name],
                            'values': {n: 10 * i + 3 for i, n in enumerate(x.enumerators)}}
        for e in self.enums.values():
            self.enum_values.update(e['values'])

    # ---- values
    def value(self, t_cpp: str, decl: M.Type):
        """-> (encoded python value, shown form in the trace) or None if no value available"""
        from hypothesis import strategies as st
        n = decl.name
        if not decl.ns and not decl.targs:
            if n == 'int':
                v = self.draw(st.integers(-1000, 1000))
                return {'t': 'int', 'v': v}, str(v)
            if n == 'size_t':
                v = self.draw(st.integers(0, 5000))
                return {'t': 'int', 'v': v}, '%dz' % v
            if n == 'unsigned char':
                v = self.draw(st.integers(0, 255))
                return {'t': 'int', 'v': v}, 'u%d' % v
            if n == 'bool':
                v = self.draw(st.booleans())
                return {'t': 'bool', 'v': v}, 'true' if v else 'false'
            if n == 'double':
                v = self.draw(st.integers(-200, 200)) + 0.5
                return {'t': 'float', 'v': v}, ('%g' % v) + 'd'
            if n == 'float':
                v = self.draw(st.integers(-50, 50)) + 0.25
                return {'t': 'float', 'v': v}, ('%g' % v) + 'f'
            if n == 'char':
                v = self.draw(st.sampled_from('abcxyzQ7'))
                return {'t': 'str', 'v': v}, "'%s'" % v
            if n == 'string':
                v = self.draw(st.text('abc XYZ_019', max_size=8))
                return {'t': 'str', 'v': v}, '"%s"' % v
        q = t_cpp
        if q in self.enums:
            e = self.enums[q]
            name = self.draw(st.sampled_from(sorted(e['values'])))
            return {'t': 'enum', 'path': e['py'] + [name]}, 'enum:%d' % e['values'][name]
        if q in self.pool and self.pool[q]:
            var = self.draw(st.sampled_from(self.pool[q]))
            if decl.ptr == '':
                return {'t': 'obj', 'ref': var}, 'obj#' + WILD      # copy: new id
            pre = {'*': 'sp:', '@': 'rp:', '&': ''}[decl.ptr]
            return {'t': 'obj', 'ref': var}, pre + 'obj#{%s}' % var
        return None

    def result(self, entity: str, r_cpp, r: M.Ret, this_cpp=None):
        """expected Python result descriptor for a declared return"""
        def one(t: M.Type, h):
            n = t.name
            if not t.ns and not t.targs:
                if n == 'void':
                    return {'t': 'none'}
                if n == 'int':
                    return {'t': 'int', 'v': h % 10007 - 5000}
                if n == 'size_t':
                    return {'t': 'int', 'v': h % 10007}
                if n == 'unsigned char':
                    return {'t': 'int', 'v': h % 200}
                if n == 'bool':
                    return {'t': 'bool', 'v': bool(h & 1)}
                if n == 'double':
                    return {'t': 'float', 'v': (h % 4096) + 0.5}
                if n == 'float':
                    return {'t': 'float', 'v': (h % 128) + 0.25}
                if n == 'char':
                    return {'t': 'str', 'v': chr(ord('a') + h % 26)}
                if n == 'string':
                    return {'t': 'str', 'v': 'ret%d' % (h % 100000)}
                if n == 'This' and this_cpp:
                    return {'t': 'instance', 'cls': this_cpp.split('::')[-1]}
            q = '::'.join(t.ns + (t.name,))
            if q in self.enums:
                return {'t': 'enumint', 'v': 0}
            def nm(x):
                return x.name + ''.join(nm(a) for a in x.targs)
            return {'t': 'instance',
                    'cls': t.name + ''.join(nm(a)[:1].upper() + nm(a)[1:] for a in t.targs)}
        h = h32(entity)
        if r.t2 is None:
            return one(r.t1, h)
        return {'t': 'pair', 'a': one(r.t1, h), 'b': one(r.t2, h + 1)}


DRIVER = r'''
import importlib.util, json, sys, traceback
plan = json.load(open(sys.argv[2]))
spec = importlib.util.spec_from_file_location(plan['module'], sys.argv[1])
out = {'import_error': None, 'steps': []}
try:
    mod = importlib.util.module_from_spec(spec)
    spec.loader.exec_module(mod)
except BaseException as e:
    out['import_error'] = '%s: %s' % (type(e).__name__, e)
    json.dump(out, open(sys.argv[3], 'w'))
    sys.exit(0)
env = {}
def resolve(path):
    o = mod
    for p in path:
        o = getattr(o, p)
    return o
def dec(v):
    t = v['t']
    if t in ('int', 'bool', 'float', 'str'):
        return v['v']
    if t == 'enum':
        return resolve(v['path'])
    if t == 'obj':
        return env[v['ref']]
    raise ValueError(t)
def enc(r):
    if r is None:
        return {'t': 'none'}
    if isinstance(r, bool):
        return {'t': 'bool', 'v': r}
    if isinstance(r, int):
        return {'t': 'int', 'v': r}
    if isinstance(r, float):
        return {'t': 'float', 'v': r}
    if isinstance(r, str):
        return {'t': 'str', 'v': r}
    if isinstance(r, tuple) and len(r) == 2:
        return {'t': 'pair', 'a': enc(r[0]), 'b': enc(r[1])}
    if isinstance(r, list):
        return {'t': 'list', 'v': [enc(x) for x in r]}
    try:
        iv = int(r)
        return {'t': 'enumint', 'v': iv, 'cls': type(r).__name__}
    except Exception:
        pass
    return {'t': 'instance', 'cls': type(r).__name__, 'mro': [c.__name__ for c in type(r).__mro__]}
mod._trace_take()
for st in plan['steps']:
    rec = {'id': st['id']}
    try:
        k = st['kind']
        args = [dec(a) for a in st.get('args', [])]
        kwargs = {n: dec(a) for n, a in st.get('kwargs', {}).items()}
        if k == 'call':
            f = resolve(st['target'])
            r = f(*args, **kwargs)
        elif k == 'method':
            r = getattr(env[st['obj']], st['name'])(*args, **kwargs)
        elif k == 'getattr':
            r = getattr(env[st['obj']], st['name'])
        elif k == 'setattr':
            setattr(env[st['obj']], st['name'], args[0]); r = None
        elif k == 'getvar':
            r = resolve(st['target'])
        elif k == 'op':
            a = env[st['obj']]
            b = args[0] if args else None
            r = eval(st['expr'], {'a': a, 'b': b, 'operator': __import__('operator')})
        elif k == 'issubclass':
            r = issubclass(resolve(st['target']), resolve(st['base']))
        elif k == 'enumint':
            r = int(resolve(st['target']))
        elif k == 'dir':
            r = sorted(n for n in dir(resolve(st['target'])) if not n.startswith('__'))
            r = {'names': r}
        if st.get('store'):
            env[st['store']] = r
        rec['result'] = r if isinstance(r, dict) else enc(r)
    except BaseException as e:
        rec['error'] = '%s: %s' % (type(e).__name__, str(e)[:300])
    rec['trace'] = mod._trace_take()
    out['steps'].append(rec)
json.dump(out, open(sys.argv[3], 'w'))
'''
