"""Shared runner: workers, collect-then-shrink, evidence, replay, known findings.

A check module (checks/cNN.py) defines SPEC = Spec(...).  The runner
  1. replays committed regression inputs and the witnesses of known findings,
  2. runs `jobs` worker processes, each a seeded Hypothesis run with phases=[generate] that
     *collects* failures (clause buckets) instead of stopping at the first,
  3. for every bucket re-runs the worker that saw it with the same seed and lets Hypothesis
     shrink that bucket only (bounded), writes a replay file and prints the VIOLATION line,
  4. writes evidence/<ID>.json.
Exit 0 = held, 1 = violation, 2 = harness error / inconclusive.
"""
from __future__ import annotations

import argparse
import hashlib
import json
import multiprocessing as mp
import os
import sys
import time
import traceback
import zlib
from dataclasses import dataclass, field
from typing import Any, Callable, Dict, List, Optional

ROOT = os.path.dirname(os.path.dirname(os.path.abspath(__file__)))
REPO = os.environ.get('VERIF_REPO', '/repo')


def setup_paths():
    if REPO not in sys.path:
        sys.path.insert(0, REPO)
    deps = os.path.join(ROOT, '.deps')
    if os.path.isdir(deps) and deps not in sys.path:
        sys.path.append(deps)
    tpl = os.path.join(REPO, 'gtwrap', 'matlab_wrapper', 'matlab_wrapper.tpl')
    if not os.path.exists(tpl):
        # git-ignored, generated file; created exactly as tests/test_matlab_wrapper.py::setUp does
        try:
            with open(tpl, 'w') as f:
                f.write("#include <gtwrap/matlab.h>\n#include <map>\n")
        except OSError:
            pass


@dataclass
class Failure:
    clause: str
    detail: str = ''


@dataclass
class Spec:
    pid: str
    strategy: Callable[[str], Any]            # tier -> hypothesis strategy
    check: Callable[[Any], List[Failure]]     # case -> failures
    describe: Callable[[Any], Any]            # case -> JSON-able (must allow replay)
    from_replay: Callable[[Any], Any]         # JSON -> case
    key: Callable[[Any], str]                 # identity of a case (distinctness)
    features: Callable[[Any], set]
    nontrivial: Callable[[Any, set], bool]
    rule: str
    budget: Dict[str, int]                    # examples per worker, by tier
    level: str = 'exploration'
    assumptions: List[str] = field(default_factory=list)
    size: Callable[[Any], int] = None         # for choosing the smaller counterexample
    fixtures: Callable[[], List[Any]] = None  # extra fixed cases for the replay tier
    extra: Callable[[str, int], Dict] = None  # (tier, seed) -> {'failures': [...], 'coverage': {...}}
    shrink_budget: int = 150
    jobs: int = 16
    sample_fn: Callable[[Any], Any] = None    # compact sample for evidence


def stable_seed(*parts) -> int:
    return zlib.crc32(':'.join(str(p) for p in parts).encode()) & 0x7fffffff


def _hyp():
    import hypothesis
    from hypothesis import HealthCheck, Phase, given, seed, settings
    return hypothesis, HealthCheck, Phase, given, seed, settings


def _load(pid: str) -> Spec:
    setup_paths()
    if ROOT not in sys.path:
        sys.path.insert(0, ROOT)
    import importlib
    mod = importlib.import_module('checks.' + pid.lower())
    return mod.SPEC


def _size(spec, case):
    if spec.size:
        return spec.size(case)
    return len(json.dumps(spec.describe(case), default=str))


def _limit_memory():
    """A change to the code under test can make a case allocate without bound; the worker then
    gets MemoryError instead of taking the host down (8 GiB of address space per process)."""
    try:
        import resource
        lim = int(os.environ.get('VERIF_WORKER_AS_GIB', '8')) << 30
        resource.setrlimit(resource.RLIMIT_AS, (lim, lim))
    except Exception:
        pass


def _worker(args):
    pid, tier, w, seedval, n, target = args
    _limit_memory()
    try:
        spec = _load(pid)
        hypothesis, HealthCheck, Phase, given, seed, settings = _hyp()
        st = {'evaluations': 0, 'nontrivial': set(), 'features': {}, 'samples': [],
              'failures': {}, 'error': None, 'w': w}
        seen_feat = set()
        calls_after = [0]
        best = [None]
        first_seen = [False]

        def body(case):
            if target is not None and first_seen[0]:
                calls_after[0] += 1
                if calls_after[0] > spec.shrink_budget:
                    return
            fails = spec.check(case)
            if target is None:
                st['evaluations'] += 1
                feats = spec.features(case)
                for f in feats:
                    st['features'][f] = st['features'].get(f, 0) + 1
                nt = spec.nontrivial(case, feats)
                if nt:
                    st['nontrivial'].add(hashlib.sha1(spec.key(case).encode()).hexdigest()[:16])
                fk = frozenset(feats)
                if nt and fk not in seen_feat and len(st['samples']) < 4:
                    seen_feat.add(fk)
                    st['samples'].append((spec.sample_fn or spec.describe)(case))
                elif not nt and not st.get('fallback'):
                    # evidence always shows a generated case, even from a tiny run
                    st['fallback'] = [(spec.sample_fn or spec.describe)(case)]
                for f in fails:
                    if f.clause not in st['failures']:
                        st['failures'][f.clause] = f.detail
            else:
                hit = [f for f in fails if f.clause == target]
                if hit:
                    first_seen[0] = True
                    sz = _size(spec, case)
                    if best[0] is None or sz < best[0][0]:
                        best[0] = (sz, spec.describe(case), hit[0].detail)
                    raise AssertionError(target)

        phases = [Phase.generate] if target is None else [Phase.generate, Phase.shrink]
        test = seed(seedval)(settings(
            max_examples=n, database=None, deadline=None, phases=phases,
            report_multiple_bugs=False, derandomize=False,
            suppress_health_check=[HealthCheck.too_slow, HealthCheck.data_too_large,
                                   HealthCheck.large_base_example])(
            given(spec.strategy(tier))(body)))
        try:
            test()
        except AssertionError:
            pass
        except Exception as e:  # Flaky etc. during bounded shrinking are expected
            if target is None:
                raise
        if target is not None:
            return {'w': w, 'best': best[0], 'error': None}
        st['nontrivial'] = sorted(st['nontrivial'])
        return st
    except BaseException:
        return {'w': w, 'error': traceback.format_exc()}


def _run_pool(ctx, n, tasks):
    """Run _worker over tasks in n processes; a worker that dies (e.g. a crash in compiled
    code under test) raises BrokenProcessPool instead of hanging the run."""
    from concurrent.futures import ProcessPoolExecutor
    with ProcessPoolExecutor(max_workers=n, mp_context=ctx) as ex:
        return list(ex.map(_worker, tasks))


def _write_replay(pid, clause, desc, detail) -> str:
    d = os.path.join(ROOT, 'replays', os.environ.get('VERIF_FOUND', 'found'), pid)
    os.makedirs(d, exist_ok=True)
    blob = json.dumps({'property': pid, 'clause': clause, 'detail': detail, 'case': desc},
                      indent=1, default=str, sort_keys=True)
    h = hashlib.sha1(blob.encode()).hexdigest()[:10]
    path = os.path.join(d, '%s-%s.json' % (clause.replace('/', '_'), h))
    with open(path, 'w') as f:
        f.write(blob)
    return os.path.relpath(path, ROOT)


def replay_file(spec: Spec, path: str) -> List[Failure]:
    with open(path) as f:
        obj = json.load(f)
    case = spec.from_replay(obj['case'] if 'case' in obj else obj)
    return spec.check(case)


def main(pid: str, argv=None):
    ap = argparse.ArgumentParser()
    ap.add_argument('--tier', default=os.environ.get('VERIF_TIER', 'quick'),
                    choices=['quick', 'thorough'])
    ap.add_argument('--replay', default=None)
    ap.add_argument('--jobs', type=int, default=int(os.environ.get('VERIF_JOBS', '0')))
    ap.add_argument('--examples', type=int, default=0, help='override examples per worker')
    args = ap.parse_args(argv)
    t0 = time.time()
    os.environ.setdefault('PYTHONHASHSEED', '0')
    try:
        spec = _load(pid)
    except Exception:
        traceback.print_exc()
        print("HARNESS-ERROR: cannot load check %s" % pid)
        return 2
    seedv = int(os.environ.get('VERIF_SEED', '1'))
    from . import findings

    if args.replay:
        try:
            fails = replay_file(spec, args.replay)
        except Exception:
            traceback.print_exc()
            return 2
        for f in fails:
            print("FAIL %s: %s" % (f.clause, f.detail))
        if fails:
            print("VIOLATION property=%s replay=%s" % (pid, args.replay))
            return 1
        print("replay passed")
        return 0

    violations = []  # (clause, replay path)
    known_lines = []
    replayed = 0
    # ---- tier 0: committed regression inputs, fixtures, finding witnesses
    try:
        rdir = os.path.join(ROOT, 'replays', pid)
        if os.path.isdir(rdir):
            for fn in sorted(os.listdir(rdir)):
                if fn.endswith('.json'):
                    p = os.path.join(rdir, fn)
                    replayed += 1
                    for f in replay_file(spec, p):
                        violations.append((f.clause, os.path.relpath(p, ROOT), f.detail))
        if spec.fixtures:
            for i, case in enumerate(spec.fixtures()):
                replayed += 1
                for f in spec.check(case):
                    path = _write_replay(pid, f.clause, spec.describe(case), f.detail)
                    violations.append((f.clause, path, f.detail))
        for e in findings.for_property(pid):
            wit = e.get('witness', {}).get(pid)
            if wit is None:
                continue
            case = spec.from_replay(wit)
            replayed += 1
            fails = spec.check(case)
            want = set(e.get('clauses', {}).get(pid, []))
            hit = [f for f in fails if not want or f.clause in want]
            other = [f for f in fails if f not in hit]
            if e.get('status') == 'open':
                if hit:
                    known_lines.append("KNOWN-FINDING: property=%s %s [%s]" %
                                       (pid, e['entry'].split(' ', 2)[-1] if
                                        e['entry'].startswith('KNOWN-FINDING') else e['entry'],
                                        e['id']))
                else:
                    print("NOTE: witness of open finding %s no longer fails" % e['id'])
                for f in other:
                    path = _write_replay(pid, f.clause, spec.describe(case), f.detail)
                    violations.append((f.clause, path, f.detail))
            else:
                for f in fails:
                    path = _write_replay(pid, f.clause, spec.describe(case), f.detail)
                    violations.append((f.clause, path, f.detail))
    except Exception:
        traceback.print_exc()
        print("HARNESS-ERROR in replay tier")
        return 2
    for line in known_lines:
        print(line)

    # ---- tier 1: generated search
    jobs = args.jobs or spec.jobs
    n = args.examples or spec.budget[args.tier]
    merged = {'evaluations': 0, 'nontrivial': set(), 'features': {}, 'samples': [],
              'failures': {}}
    extra_cov = {}
    if n > 0:
        tasks = [(pid, args.tier, w, stable_seed(seedv, pid, w), n, None) for w in range(jobs)]
        ctx = mp.get_context('fork')
        try:
            results = _run_pool(ctx, min(jobs, len(tasks)), tasks)
        except Exception as e:
            print("HARNESS-ERROR: worker pool failed: %s: %s" % (type(e).__name__, e))
            return 2
        errs = [r for r in results if r.get('error')]
        if errs:
            print(errs[0]['error'])
            print("HARNESS-ERROR: %d worker(s) failed" % len(errs))
            return 2
        for r in results:
            merged['evaluations'] += r['evaluations']
            merged['nontrivial'].update(r['nontrivial'])
            for k, v in r['features'].items():
                merged['features'][k] = merged['features'].get(k, 0) + v
            merged['samples'].extend(r['samples'][:2])
            merged.setdefault('fallback', []).extend(r.get('fallback', [])[:1])
            for c, d in r['failures'].items():
                merged['failures'].setdefault(c, (r['w'], d))
        # ---- shrink each bucket (bounded), in parallel
        if merged['failures']:
            stasks = [(pid, args.tier, w, stable_seed(seedv, pid, w), n, clause)
                      for clause, (w, _) in sorted(merged['failures'].items())]
            try:
                sres = _run_pool(ctx, min(jobs, len(stasks)), stasks)
            except Exception as e:
                print("HARNESS-ERROR: worker pool failed while shrinking: %s: %s" % (
                    type(e).__name__, e))
                return 2
            for (clause, (w, detail)), r in zip(sorted(merged['failures'].items()), sres):
                if r.get('error'):
                    print(r['error'])
                    print("HARNESS-ERROR while shrinking")
                    return 2
                if r['best'] is None:
                    path = _write_replay(pid, clause, {'unshrunk': True, 'worker': w,
                                                       'seed': seedv}, detail)
                else:
                    path = _write_replay(pid, clause, r['best'][1], r['best'][2])
                    detail = r['best'][2]
                violations.append((clause, path, detail))
    if spec.extra:
        try:
            ex = spec.extra(args.tier, seedv)
        except Exception:
            traceback.print_exc()
            print("HARNESS-ERROR in extra stage")
            return 2
        for f, desc in ex.get('failures', []):
            path = _write_replay(pid, f.clause, desc, f.detail)
            violations.append((f.clause, path, f.detail))
        extra_cov = ex.get('coverage', {})
        merged['evaluations'] += ex.get('evaluations', 0)
        merged['nontrivial'].update(ex.get('nontrivial', []))
        merged['samples'].extend(ex.get('samples', []))

    wall = time.time() - t0
    cov = {
        'evaluations': merged['evaluations'] + replayed,
        'distinct_nontrivial': len(merged['nontrivial']),
        'rule': spec.rule,
        'samples': merged['samples'][:8] or merged.get('fallback', [])[:2],
        'feature_histogram': dict(sorted(merged['features'].items())),
        'replayed_regression_inputs': replayed,
        'workers': jobs, 'examples_per_worker': n,
        'known_findings_reported': known_lines,
    }
    cov.update(extra_cov)
    ev = {'property_id': pid, 'tier': args.tier, 'seed': seedv, 'level': spec.level,
          'coverage': cov, 'assumptions': spec.assumptions, 'wall_s': round(wall, 2),
          'violations': len(violations)}
    evdir = os.path.join(ROOT, 'evidence') if 'VERIF_FOUND' not in os.environ else \
        os.path.join(ROOT, 'replays', os.environ['VERIF_FOUND'], 'evidence')
    os.makedirs(evdir, exist_ok=True)
    with open(os.path.join(evdir, pid + '.json'), 'w') as f:
        json.dump(ev, f, indent=1, default=str)
    print("%s %s: %d evaluations, %d distinct non-trivial, %d violation bucket(s), %.1fs" %
          (pid, args.tier, cov['evaluations'], cov['distinct_nontrivial'], len(violations), wall))
    if violations:
        seen = set()
        for clause, path, detail in violations:
            if (clause, path) in seen:
                continue
            seen.add((clause, path))
            print("FAIL %s: %s" % (clause, (detail or '')[:600]))
            print("VIOLATION property=%s replay=%s" % (pid, path))
        return 1
    return 0
