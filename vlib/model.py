"""Independent model of the interface-file dialect (no gtwrap import).

Plain frozen dataclasses.  The same classes are used for the *generated* model and for the
*projection* of gtwrap's parse tree (vlib.project), so oracles compare values of one kind.
"""
from __future__ import annotations

import dataclasses
from dataclasses import dataclass, field, replace
from typing import Optional, Tuple, Union

BASIC = ("void", "bool", "unsigned char", "char", "int", "size_t", "double", "float")

OPERATORS = ('+', '-', '*', '/', '%', '^', '&', '|', '+=', '-=', '*=', '/=', '%=', '^=', '&=',
             '|=', '<<', '<<=', '>>', '>>=', '==', '!=', '<', '>', '<=', '>=', '()', '[]')

CPP_KEYWORDS = frozenset("""alignas alignof and and_eq asm auto bitand bitor bool break case catch
char char8_t char16_t char32_t class compl concept const consteval constexpr constinit const_cast
continue co_await co_return co_yield decltype default delete do double dynamic_cast else enum
explicit export extern false float for friend goto if inline int long mutable namespace new noexcept
not not_eq nullptr operator or or_eq private protected public register reinterpret_cast requires
return short signed sizeof static static_assert static_cast struct switch template this thread_local
throw true try typedef typeid typename union unsigned using virtual void volatile wchar_t while xor
xor_eq""".split())
GRAMMAR_KEYWORDS = frozenset(
    "const virtual class static pair template typedef enum namespace operator This std size_t "
    "string include".split())
RESERVED = CPP_KEYWORDS | GRAMMAR_KEYWORDS | frozenset(BASIC)


@dataclass(frozen=True)
class Type:
    """A type expression: [const] ns::name[<targs>] [*|@|&]."""
    ns: Tuple[str, ...] = ()
    name: str = ''
    targs: Tuple["Type", ...] = ()
    const: bool = False
    ptr: str = ''  # '', '*' (shared), '@' (raw), '&'

    @property
    def basic(self) -> bool:
        return not self.ns and not self.targs and self.name in BASIC

    def bare(self) -> "Type":
        return replace(self, const=False, ptr='')

    def depth(self) -> int:
        return 1 + max((t.depth() for t in self.targs), default=0)

    def walk(self):
        yield self
        for t in self.targs:
            yield from t.walk()


@dataclass(frozen=True)
class Arg:
    type: Type
    name: str
    default: Optional[str] = None


@dataclass(frozen=True)
class Ret:
    t1: Type
    t2: Optional[Type] = None
    std: bool = False  # 'std::pair' spelling (rendering only, not in the tree)


@dataclass(frozen=True)
class TParam:
    name: str
    insts: Tuple[Type, ...] = ()  # () = no instantiation list


@dataclass(frozen=True)
class Template:
    params: Tuple[TParam, ...]

    def names(self):
        return [p.name for p in self.params]


@dataclass(frozen=True)
class Ctor:
    name: str
    args: Tuple[Arg, ...] = ()
    template: Optional[Template] = None


@dataclass(frozen=True)
class Method:
    ret: Ret
    name: str
    args: Tuple[Arg, ...] = ()
    const: bool = False
    template: Optional[Template] = None


@dataclass(frozen=True)
class Static:
    ret: Ret
    name: str
    args: Tuple[Arg, ...] = ()
    template: Optional[Template] = None


@dataclass(frozen=True)
class Operator:
    ret: Ret
    op: str
    args: Tuple[Arg, ...] = ()
    const: bool = True


@dataclass(frozen=True)
class Dunder:
    name: str
    args: Tuple[Arg, ...] = ()


@dataclass(frozen=True)
class Prop:
    type: Type
    name: str
    default: Optional[str] = None


@dataclass(frozen=True)
class Enum:
    name: str
    enumerators: Tuple[str, ...]
    kw: str = 'enum'  # 'enum' | 'enum class' | 'enum struct' (rendering only)


Member = Union[Ctor, Method, Static, Operator, Dunder, Prop, Enum]
MEMBER_ORDER = (Ctor, Method, Static, Dunder, Prop, Operator, Enum)


@dataclass(frozen=True)
class Class:
    name: str
    members: Tuple[Member, ...] = ()
    template: Optional[Template] = None
    virtual: bool = False
    parent: Optional[Type] = None

    def of(self, kind):
        return [m for m in self.members if isinstance(m, kind)]


@dataclass(frozen=True)
class Fwd:
    name: Type  # typename only
    virtual: bool = False
    parent: Optional[Type] = None


@dataclass(frozen=True)
class Include:
    header: str


@dataclass(frozen=True)
class Typedef:
    type: Type  # templated typename
    name: str


@dataclass(frozen=True)
class Func:
    ret: Ret
    name: str
    args: Tuple[Arg, ...] = ()
    template: Optional[Template] = None


@dataclass(frozen=True)
class Var:
    type: Type
    name: str
    default: Optional[str] = None


@dataclass(frozen=True)
class Namespace:
    name: str
    content: Tuple["Item", ...] = ()


Item = Union[Class, Fwd, Include, Typedef, Func, Enum, Var, Namespace]


@dataclass(frozen=True)
class Module:
    content: Tuple[Item, ...] = ()


_CLASSES = {c.__name__: c for c in (Type, Arg, Ret, TParam, Template, Ctor, Method, Static,
                                    Operator, Dunder, Prop, Enum, Class, Fwd, Include, Typedef,
                                    Func, Var, Namespace, Module)}


def to_json(x):
    """Dataclass tree -> JSON-able structure (tagged)."""
    if dataclasses.is_dataclass(x):
        d = {"_t": type(x).__name__}
        for f in dataclasses.fields(x):
            d[f.name] = to_json(getattr(x, f.name))
        return d
    if isinstance(x, (tuple, list)):
        return [to_json(i) for i in x]
    return x


def from_json(x):
    if isinstance(x, dict) and "_t" in x:
        cls = _CLASSES[x["_t"]]
        return cls(**{k: from_json(v) for k, v in x.items() if k != "_t"})
    if isinstance(x, list):
        return tuple(from_json(i) for i in x)
    return x


def normalise_members(cls: Class) -> Class:
    """Regroup members by kind (what the parse tree can observe), stable within a kind."""
    rank = {k: i for i, k in enumerate(MEMBER_ORDER)}
    return replace(cls, members=tuple(sorted(cls.members, key=lambda m: rank[type(m)])))


def map_items(node, fn):
    """Rebuild a Module/Namespace applying fn to every item bottom-up (fn may return None to
    delete, or a list to splice)."""
    out = []
    for it in node.content:
        if isinstance(it, Namespace):
            it = map_items(it, fn)
        r = fn(it)
        if r is None:
            continue
        if isinstance(r, (list, tuple)):
            out.extend(r)
        else:
            out.append(r)
    return replace(node, content=tuple(out))


def observable(m):
    """What a parse tree can observe of a model: members regrouped by kind, rendering-only
    fields reset."""

    def ret(r: Ret):
        return replace(r, std=False)

    def member(x):
        if isinstance(x, (Method, Static, Operator)):
            return replace(x, ret=ret(x.ret))
        if isinstance(x, Enum):
            return replace(x, kw='enum')
        return x

    def fn(it):
        if isinstance(it, Class):
            it = normalise_members(replace(it, members=tuple(member(x) for x in it.members)))
        elif isinstance(it, Func):
            it = replace(it, ret=ret(it.ret))
        elif isinstance(it, Enum):
            it = replace(it, kw='enum')
        return it

    return map_items(m, fn)


def iter_items(node, path=()):
    """Yield (path, item) for every item, depth first, namespaces included."""
    for it in node.content:
        yield path, it
        if isinstance(it, Namespace):
            yield from iter_items(it, path + (it.name,))


def all_types(x):
    """Yield every top-level Type object reachable in a model node."""
    if isinstance(x, Type):
        yield x
        return
    if dataclasses.is_dataclass(x):
        for f in dataclasses.fields(x):
            yield from all_types(getattr(x, f.name))
    elif isinstance(x, (tuple, list)):
        for i in x:
            yield from all_types(i)


def map_types(x, fn, skip_templates=False):
    """Rebuild a model node applying fn to every Type node bottom-up (fn: Type -> Type).
    With skip_templates the instantiation lists (concrete types) are left alone."""
    if isinstance(x, Type):
        t = replace(x, targs=tuple(map_types(a, fn) for a in x.targs))
        return fn(t)
    if skip_templates and isinstance(x, Template):
        return x
    if dataclasses.is_dataclass(x):
        changes = {}
        for f in dataclasses.fields(x):
            v = getattr(x, f.name)
            nv = map_types(v, fn, skip_templates)
            if nv is not v and nv != v:
                changes[f.name] = nv
        return replace(x, **changes) if changes else x
    if isinstance(x, tuple):
        return tuple(map_types(i, fn, skip_templates) for i in x)
    return x


def rename_param(node, old: str, new: str, members=True):
    """Consistently rename template parameter `old` to `new` inside one templated declaration:
    its own template header and every type that names the parameter (instantiation lists are
    concrete types and are left alone).  members=False: do not touch member-level headers."""
    def fn(t: Type):
        if not t.ns and not t.targs and t.name == old:
            return replace(t, name=new)
        if t.ns and t.ns[0] == old:
            return replace(t, ns=(new,) + t.ns[1:])
        return t

    node = map_types(node, fn, skip_templates=True)
    tp = getattr(node, 'template', None)
    if tp is not None:
        node = replace(node, template=Template(tuple(
            replace(p, name=new) if p.name == old else p for p in tp.params)))
    return node


def identifiers(x, acc=None):
    """All identifier-like strings in a model."""
    if acc is None:
        acc = set()
    if isinstance(x, str):
        acc.add(x)
    elif dataclasses.is_dataclass(x):
        for f in dataclasses.fields(x):
            identifiers(getattr(x, f.name), acc)
    elif isinstance(x, tuple):
        for i in x:
            identifiers(i, acc)
    return acc
