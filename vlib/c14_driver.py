"""Child process for C14: runs one generation job under an audit hook and reports every file
opened (reads / writes), directories made, files removed or renamed.

usage: python c14_driver.py job.json
job = {"repo":..., "mode": "script-pybind"|"script-matlab"|"api-pybind-history"|"api-matlab",
       "argv": [...], "report": path, "start_delay_ms": n, ...}
"""
import json
import os
import runpy
import sys
import time

job = json.load(open(sys.argv[1]))
events = []


def hook(event, args):
    try:
        if event == 'open':
            path, mode, flags = args
            w = False
            if isinstance(mode, str):
                w = any(c in mode for c in 'wax+')
            elif isinstance(flags, int):
                w = bool(flags & (os.O_WRONLY | os.O_RDWR | os.O_CREAT | os.O_TRUNC))
            if isinstance(path, bytes):
                path = path.decode('utf-8', 'surrogateescape')
            if isinstance(path, str):
                events.append(['open-w' if w else 'open-r', os.path.abspath(path)])
        elif event in ('os.mkdir', 'os.remove', 'os.rename', 'os.rmdir', 'os.truncate',
                       'os.symlink', 'os.link', 'shutil.rmtree', 'shutil.move',
                       'shutil.copyfile', 'tempfile.mkstemp', 'tempfile.mkdtemp',
                       'subprocess.Popen', 'socket.connect', 'os.system'):
            a0 = args[0] if args else ''
            if isinstance(a0, bytes):
                a0 = a0.decode('utf-8', 'surrogateescape')
            events.append([event, os.path.abspath(a0) if isinstance(a0, str) and a0 else
                           str(a0)])
    except Exception:
        pass


time.sleep(job.get('start_delay_ms', 0) / 1000.0)
sys.path.insert(0, job['repo'])
sys.addaudithook(hook)
status = 'ok'
try:
    mode = job['mode']
    if mode.startswith('script'):
        script = os.path.join(job['repo'], 'scripts',
                              'pybind_wrap.py' if mode == 'script-pybind' else 'matlab_wrap.py')
        sys.argv = [script] + job['argv']
        runpy.run_path(script, run_name='__main__')
    elif mode == 'api-pybind-history':
        from gtwrap.pybind_wrapper import PybindWrapper
        o = job['options']
        def make():
            return PybindWrapper(module_name=o['module_name'], top_module_namespaces=o['top'],
                                 use_boost_serialization=o['boost'], ignore_classes=o['ignore'],
                                 module_template=open(job['template']).read())
        w = make()
        fresh = list(job.get('fresh', []))
        for i, text in enumerate(job['history']):
            try:
                (make() if i < len(fresh) and fresh[i] else w).wrap_file(
                    text, module_name='earlier', submodules=[])
            except Exception:
                pass
        if job.get('final_fresh'):
            w = make()
        w.wrap(list(job['sources']), job['out'])
    elif mode == 'api-matlab':
        from gtwrap.matlab_wrapper import MatlabWrapper
        o = job['options']
        w = MatlabWrapper(module_name=o['module_name'], top_module_namespace=o['top'],
                          ignore_classes=o['ignore'], use_boost_serialization=o['boost'])
        w.wrap(list(job['sources']), path=job['out'])
except SystemExit as e:
    status = 'exit %s' % (e.code,)
except BaseException as e:  # noqa
    status = 'raise %s: %s' % (type(e).__name__, str(e)[:200])
json.dump({'status': status, 'events': events}, open(job['report'], 'w'))
