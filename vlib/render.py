"""Model -> token list -> interface text.

Lexemes follow gtwrap/interface_parser/tokens.py: 'unsigned char', 'enum class', 'enum struct',
'#include', 'std::' (in front of pair), a whole '<header>', a whole default-value expression and
'__name__' are single tokens.
"""
from __future__ import annotations

import re
from typing import List, Optional, Sequence

from . import model as M


def type_toks(t: M.Type) -> List[str]:
    out = []
    if t.const:
        out.append('const')
    for n in t.ns:
        out += [n, '::']
    out.append(t.name)
    if t.targs:
        out.append('<')
        for i, a in enumerate(t.targs):
            if i:
                out.append(',')
            out += type_toks(a)
        out.append('>')
    if t.ptr:
        out.append(t.ptr)
    return out


def args_toks(args: Sequence[M.Arg]) -> List[str]:
    out = ['(']
    for i, a in enumerate(args):
        if i:
            out.append(',')
        out += type_toks(a.type) + [a.name]
        if a.default is not None:
            out += ['=', a.default]
    out.append(')')
    return out


def ret_toks(r: M.Ret) -> List[str]:
    if r.t2 is None:
        return type_toks(r.t1)
    return (['std::'] if r.std else []) + ['pair', '<'] + type_toks(r.t1) + [','] + \
        type_toks(r.t2) + ['>']


def template_toks(t: Optional[M.Template]) -> List[str]:
    if t is None:
        return []
    out = ['template', '<']
    for i, p in enumerate(t.params):
        if i:
            out.append(',')
        out.append(p.name)
        if p.insts:
            out += ['=', '{']
            for j, x in enumerate(p.insts):
                if j:
                    out.append(',')
                out += type_toks(x)
            out.append('}')
    out.append('>')
    return out


def enum_toks(e: M.Enum) -> List[str]:
    out = [e.kw, e.name, '{']
    for i, x in enumerate(e.enumerators):
        if i:
            out.append(',')
        out.append(x)
    return out + ['}', ';']


def member_toks(m) -> List[str]:
    if isinstance(m, M.Ctor):
        return template_toks(m.template) + [m.name] + args_toks(m.args) + [';']
    if isinstance(m, M.Method):
        return template_toks(m.template) + ret_toks(m.ret) + [m.name] + args_toks(m.args) + \
            (['const'] if m.const else []) + [';']
    if isinstance(m, M.Static):
        return template_toks(m.template) + ['static'] + ret_toks(m.ret) + [m.name] + \
            args_toks(m.args) + [';']
    if isinstance(m, M.Operator):
        return ret_toks(m.ret) + ['operator', m.op] + args_toks(m.args) + \
            (['const'] if m.const else []) + [';']
    if isinstance(m, M.Dunder):
        return ['__' + m.name + '__'] + args_toks(m.args) + [';']
    if isinstance(m, M.Prop):
        return type_toks(m.type) + [m.name] + \
            (['=', m.default] if m.default is not None else []) + [';']
    if isinstance(m, M.Enum):
        return enum_toks(m)
    raise TypeError(m)


def item_toks(it) -> List[str]:
    if isinstance(it, M.Include):
        return ['#include', '<' + it.header + '>']
    if isinstance(it, M.Fwd):
        return (['virtual'] if it.virtual else []) + ['class'] + type_toks(it.name) + \
            ([':'] + type_toks(it.parent) if it.parent else []) + [';']
    if isinstance(it, M.Class):
        out = template_toks(it.template) + (['virtual'] if it.virtual else []) + \
            ['class', it.name]
        if it.parent is not None:
            out += [':'] + type_toks(it.parent)
        out.append('{')
        for m in it.members:
            out += member_toks(m)
        return out + ['}', ';']
    if isinstance(it, M.Typedef):
        return ['typedef'] + type_toks(it.type) + [it.name, ';']
    if isinstance(it, M.Func):
        return template_toks(it.template) + ret_toks(it.ret) + [it.name] + args_toks(it.args) + [';']
    if isinstance(it, M.Enum):
        return enum_toks(it)
    if isinstance(it, M.Var):
        return type_toks(it.type) + [it.name] + \
            (['=', it.default] if it.default is not None else []) + [';']
    if isinstance(it, M.Namespace):
        out = ['namespace', it.name, '{']
        for c in it.content:
            out += item_toks(c)
        return out + ['}']
    raise TypeError(it)


def module_toks(m) -> List[str]:
    out = []
    for it in m.content:
        out += item_toks(it)
    return out


_WORDY = re.compile(r'[A-Za-z0-9_]')


def needs_space(left: str, right: str) -> bool:
    """True if the two tokens cannot abut without changing the token stream."""
    if not left or not right:
        return False
    a, b = left[-1], right[0]
    if _WORDY.match(a) and _WORDY.match(b):
        return True
    if a == '/' and b in '/*':  # would open a comment
        return True
    if a == ':' and b == ':':
        return True
    if left == '#include':
        return False
    # a default expression is greedy (Word(printables...)): keep it separated from what follows
    return False


def canonical(tokens: Sequence[str]) -> str:
    """One space between tokens, newline after ';', '{' and '}'."""
    out = []
    for i, t in enumerate(tokens):
        out.append(t)
        if i + 1 < len(tokens):
            out.append('\n' if t in (';', '{', '}') else ' ')
    return ''.join(out) + ('\n' if tokens else '')


def text(m) -> str:
    if isinstance(m, M.Module):
        return canonical(module_toks(m))
    return canonical(item_toks(m))


def layout(tokens: Sequence[str], gaps: Sequence[str]) -> str:
    """Interleave tokens with explicit gap fillers (len(gaps) == len(tokens)+1)."""
    assert len(gaps) == len(tokens) + 1
    out = [gaps[0]]
    for t, g in zip(tokens, gaps[1:]):
        out.append(t)
        out.append(g)
    return ''.join(out)


def type_str(t: M.Type) -> str:
    """Compact C++-like spelling used in reports and in reference models."""
    s = ('const ' if t.const else '') + '::'.join(t.ns + (t.name,))
    if t.targs:
        s += '<' + ', '.join(type_str(a) for a in t.targs) + '>'
    return s + t.ptr
