"""Expected structure of a MATLAB toolbox, computed from the instantiated model
(vlib.refinst.expected) and the options.  No gtwrap import; no cosmetic strings.
"""
from __future__ import annotations

import re
from typing import Dict, List, Optional, Sequence, Tuple

from . import model as M
from .refinst import nows

NOT_PTR = ('int', 'double', 'bool', 'char', 'unsignedchar', 'size_t')
IGNORE_NS = ('Matrix', 'Vector', 'Point2', 'Point3')


def canon(s: str) -> str:
    return re.sub(r'[^A-Za-z0-9_]', '', s or '')


def family_key(s: str) -> str:
    """Identity of a type for comparing a MATLAB isa() name (a.b.NameArgs...) with a C++
    spelling (a::b::Name<ns::Args>): namespace qualifiers are dropped on both sides (the MATLAB
    name of a templated type concatenates the unqualified argument names)."""
    s = re.sub(r'\b[A-Za-z_]\w*(?:::|\.)', '', s or '')
    return canon(s)


def expand(args):
    """[(explicit args, omitted args)] for a callable whose trailing parameters have defaults:
    all parameters first, then one fewer, ... down to the required ones."""
    out = []
    n = len(args)
    k = 0
    while k < n and args[n - 1 - k][2] is not None:
        k += 1
    for j in range(n, n - k - 1, -1):
        out.append((args[:j], args[j:]))
    return out


def base_name(cpp_type: str) -> str:
    """unqualified name of a (whitespace-free) C++ type spelling without qualifiers."""
    t = cpp_type
    t = re.sub(r'^const', '', t)
    t = re.sub(r'^std::shared_ptr<(.*)>$', r'\1', t)
    t = t.rstrip('&*')
    head = t.split('<')[0]
    return head.split('::')[-1]


class TypeInfo:
    """What the declared C++ spelling (refinst canonical form) of a parameter implies."""

    def __init__(self, cpp: str):
        self.cpp = cpp
        t = cpp
        self.const = t.startswith('const')
        if self.const:
            t = t[5:]
        self.shared = t.startswith('std::shared_ptr<') and t.endswith('>')
        if self.shared:
            t = t[len('std::shared_ptr<'):-1]
        self.ref = t.endswith('&')
        self.raw = t.endswith('*')
        t = t.rstrip('&*')
        self.bare = t                      # ns::Name<args>
        # unqualified name: the last component once template argument lists are removed
        # (ab::C<int>::shared_ptr -> shared_ptr, ns::Name<args> -> Name)
        flat, depth = [], 0
        for ch in t:
            if ch == '<':
                depth += 1
            elif ch == '>':
                depth -= 1
            elif depth == 0:
                flat.append(ch)
        self.name = ''.join(flat).split('::')[-1]

    def family(self, enums=()) -> str:
        n = self.name
        if '<' not in self.bare or True:
            if n in ('int', 'size_t'):
                return 'numeric'
            if n in ('double', 'Vector', 'Matrix', 'Point2', 'Point3'):
                return 'double'
            if n == 'bool':
                return 'logical'
            if n in ('string', 'char'):
                return 'char'
            if n == 'unsignedchar':
                return 'unsignedchar'
        return canon(self.bare)


def matlab_pkg(path: Sequence[str]) -> str:
    return '/'.join('+' + p for p in path)


def expected_toolbox(items: List[dict], module: str, ignore=(), boost=False) -> dict:
    """-> {'files': {relpath: kind}, 'classes': [...], 'functions': {...}, 'enums': [...],
           'n_ids': int}"""
    ignore = set(ignore)
    res = {'files': {module + '_wrapper.cpp': 'cpp'}, 'classes': [], 'functions': {},
           'enums': [], 'n_ids': 0, 'all_classes': []}

    enums_at = {}  # namespace path -> enums declared in any block of that namespace

    def collect(scope, path):
        for it in scope:
            if it['k'] == 'ns':
                collect(it['items'], path + (it['name'],))
            elif it['k'] == 'pass' and isinstance(it['item'], M.Enum):
                enums_at.setdefault(path, []).append(it['item'].name)
    collect(items, ())

    def walk(scope, path):
        for it in scope:
            k = it['k']
            if k == 'ns':
                walk(it['items'], path + (it['name'],))
            elif k == 'class':
                cpath = tuple(it['path'])
                qual = '::'.join(cpath + (it['name'],))
                res['all_classes'].append(it)
                if qual in ignore:
                    continue
                c = dict(it)
                c['ns_enums'] = enums_at.get(cpath, [])  # of the class's own C++ namespace
                c['matlab'] = '.'.join(cpath + (it['name'],))
                c['collector'] = ''.join(cpath) + it['name']
                pk = matlab_pkg(cpath)
                c['file'] = (pk + '/' if pk else '') + it['name'] + '.m'
                res['files'][c['file']] = 'classdef'
                for ename, evals in it['enums']:
                    ep = (pk + '/' if pk else '') + '+' + it['name'] + '/' + ename + '.m'
                    res['files'][ep] = 'enum'
                    res['enums'].append({'file': ep, 'name': ename, 'values': list(evals)})
                # ids
                n = 1 + (1 if it['virtual'] else 0) + 1
                c['ctor_overloads'] = []
                for ct in it['ctors']:
                    for ex, om in expand(ct['args']):
                        c['ctor_overloads'].append({'explicit': ex, 'omitted': om})
                        n += 1
                c['method_overloads'] = {}
                c['serialized'] = False
                for m in it['methods']:
                    if m['name'] == 'serializable' or m['name'] == 'pickle':
                        continue
                    if m['name'] == 'serialize':
                        if boost and not c['serialized']:
                            c['serialized'] = True
                            n += 2
                        continue
                    lst = c['method_overloads'].setdefault(m['name'], [])
                    for ex, om in expand(m['args']):
                        lst.append({'explicit': ex, 'omitted': om, 'ret': m['ret'],
                                    'cpp': m['cpp']})
                        n += 1
                c['static_overloads'] = {}
                for m in it['statics']:
                    if m['name'] == 'pickle':
                        continue
                    lst = c['static_overloads'].setdefault(m['name'], [])
                    for ex, om in expand(m['args']):
                        lst.append({'explicit': ex, 'omitted': om, 'ret': m['ret'],
                                    'cpp': m['cpp']})
                        n += 1
                n += 2 * len(it['props'])
                res['n_ids'] += n
                res['classes'].append(c)
            elif k == 'func':
                pk = matlab_pkg(path)
                f = (pk + '/' if pk else '') + it['name'] + '.m'
                res['files'][f] = 'function'
                lst = res['functions'].setdefault(f, [])
                for ex, om in expand(it['args']):
                    lst.append({'explicit': ex, 'omitted': om, 'ret': it['ret'],
                                'cpp': it['cpp'], 'name': it['name'], 'path': path,
                                'templated': '<' in it['cpp']})
                    res['n_ids'] += 1
            elif k == 'pass' and isinstance(it['item'], M.Enum):
                pk = matlab_pkg(path)
                f = (pk + '/' if pk else '') + it['item'].name + '.m'
                res['files'][f] = 'enum'
                res['enums'].append({'file': f, 'name': it['item'].name,
                                     'values': list(it['item'].enumerators)})
    walk(items, ())
    return res


STRING_REF_AS_OBJECT = [False]  # set by the checks while finding F-28 is open (non-strict)


def unwrap_mode(t: TypeInfo, is_enum: bool) -> str:
    """Unwrap primitive the declared passing mode calls for."""
    if is_enum:
        return 'unwrap_enum'
    plain = t.name in NOT_PTR or t.name in IGNORE_NS or \
        (t.name == 'string' and not STRING_REF_AS_OBJECT[0])
    if t.ref and not plain:
        return '*unwrap_shared_ptr'
    if t.raw and t.name not in IGNORE_NS:
        return 'unwrap_ptr'
    if (t.shared or (not plain and t.name != 'string')) and t.name not in IGNORE_NS:
        return 'unwrap_shared_ptr'
    return 'unwrap'


def passes_deref(t: TypeInfo, is_enum: bool) -> bool:
    """By-value object: the routine holds a shared pointer and must pass *name."""
    return unwrap_mode(t, is_enum) == 'unwrap_shared_ptr' and not t.shared
