"""Thin drivers around gtwrap's two generators (library API), used by several checks."""
from __future__ import annotations

import os
import shutil
import tempfile
from typing import Dict, Optional, Sequence

PYBIND_TPL = """// test template
// VERIF-HEAD-BEGIN
{includes}
{boost_class_export}
// VERIF-HEAD-END
// VERIF-SUBDECL-BEGIN
{submodules}
// VERIF-SUBDECL-END
// VERIF-MODULEDEF
{module_def} {{
    m_.doc() = "pybind11 wrapper of {module_name}";
// VERIF-SUBINIT-BEGIN
{submodules_init}
// VERIF-SUBINIT-END
// VERIF-BODY-BEGIN
{wrapped_namespace}
// VERIF-BODY-END
}}
"""


def pybind_wrapper(top=('',), ignore=(), boost=False, module_name='mod', tpl=PYBIND_TPL,
                   xml_source=""):
    from gtwrap.pybind_wrapper import PybindWrapper
    return PybindWrapper(module_name=module_name, top_module_namespaces=list(top),
                         use_boost_serialization=boost, ignore_classes=list(ignore),
                         module_template=tpl, xml_source=xml_source)


def pybind_text(text: str, top=('',), ignore=(), boost=False, module_name='mod',
                tpl=PYBIND_TPL, submodules=(), xml_source="") -> str:
    w = pybind_wrapper(top, ignore, boost, module_name, tpl, xml_source)
    return w.wrap_file(text, module_name=module_name, submodules=list(submodules))


def scratch_dir(prefix='vwrap'):
    base = os.environ.get('VERIF_TMP') or ('/dev/shm' if os.path.isdir('/dev/shm') else None)
    return tempfile.mkdtemp(prefix=prefix, dir=base)


def matlab_tree(texts: Sequence[str], module_name='mod', ignore=(), boost=False,
                top=('',)) -> Dict[str, str]:
    """Run MatlabWrapper.wrap on files holding `texts`; -> {relative path: content}."""
    from gtwrap.matlab_wrapper import MatlabWrapper
    d = scratch_dir()
    try:
        srcs = []
        for i, t in enumerate(texts):
            p = os.path.join(d, 'in%d.i' % i)
            with open(p, 'w') as f:
                f.write(t)
            srcs.append(p)
        out = os.path.join(d, 'out')
        os.makedirs(out)
        w = MatlabWrapper(module_name=module_name, top_module_namespace=list(top),
                          ignore_classes=list(ignore), use_boost_serialization=boost)
        w.wrap(srcs, path=out)
        return read_tree(out)
    finally:
        shutil.rmtree(d, ignore_errors=True)


def read_tree(root: str) -> Dict[str, str]:
    res = {}
    for dp, dn, fn in os.walk(root):
        for f in fn:
            p = os.path.join(dp, f)
            with open(p, 'rb') as fh:
                res[os.path.relpath(p, root)] = fh.read().decode('utf-8', 'surrogateescape')
    return res
