"""Hypothesis strategies building interface-file models by construction (vlib.model values).

Everything random is a Hypothesis draw.  A mutable Ctx carries what has been declared so far, so
later declarations can refer to earlier ones (base classes, argument types, typedef targets).
"""
from __future__ import annotations

from dataclasses import dataclass, field, replace
from typing import List, Optional, Sequence, Tuple

from hypothesis import strategies as st

from . import model as M
from . import findings

PY_KEYWORDS = ['lambda', 'def', 'in', 'async', 'is', 'pass', 'None', 'await', 'del', 'import', 'raise', 'elif',
               'as', 'with', 'assert', 'finally', 'nonlocal', 'yield', 'from', 'global', 'except',
               'True', 'False', 'not', 'or', 'and']  # Python keywords that are not C++ keywords
IPYTHON = ["svg", "png", "jpeg", "html", "javascript", "markdown", "latex"]

CLASS_POOL = ['A', 'B', 'C', 'Foo', 'Bar', 'Baz', 'Test', 'T2', 'Tensor', 'Pose3', 'Point2d',
              'Values', 'MyFactor', 'Key', 'Tt', 'Item', 'Node', 'Graph', 'Cal3', 'Rot']
NS_POOL = ['gtsam', 'ns1', 'ns2', 'inner', 'a', 'b', 'detail', 'T', 'test', 'geo',
           'gtsam_unstable', 'ns12', 'ab']
FUNC_POOL = ['f', 'g', 'h', 'get', 'set', 'add', 'norm', 'size', 'at', 'load2D', 'create',
             'value', 'dim', 'equals', 'run', 'tf', 'test', 'T']
ARG_POOL = ['x', 'y', 'z', 'a', 'b', 'n', 'key', 'name', 'other', 'p', 'q', 'value', 't', 'T',
            's', 'tol', 'i', 'j']
TPARAM_POOL = ['T', 'U', 'K', 'N', 'POSE', 'CALIBRATION', 'T1', 'V', 'P', 'CAM', 'Tp', 'D',
               'POINT', 'RESULT']
ENUM_POOL = ['Kind', 'Color', 'Mode', 'Verbosity', 'E', 'State', 'classification', 'structural']
ENUMERATOR_POOL = ['Red', 'Green', 'Blue', 'A', 'B', 'C', 'SILENT', 'ERROR', 'kOne', 'kTwo',
                   'Dog', 'Cat', 'x0', 'X']
FOREIGN_TYPES = [((), 'string'), ((), 'Vector'), ((), 'Matrix'), (('gtsam',), 'Pose3'),
                 (('gtsam',), 'Point3'), (('std',), 'string'), (('Eigen',), 'MatrixXd'),
                 (('gtsam', 'noiseModel'), 'Base'), ((), 'Key'), ((), 'Tester'),
                 (('gtsam',), 'Tensor')]
FOREIGN_TEMPLATES = [(('std',), 'vector', 1), (('std',), 'map', 2), ((), 'FastVector', 1),
                     (('gtsam',), 'BearingRange', 2), (('std',), 'optional', 1),
                     (('ns',), 'Tpl', 2), (('std',), 'deque', 1)]
BASIC_VALUE = ['bool', 'unsigned char', 'char', 'int', 'size_t', 'double', 'float']
DEFAULTS = ['0', '1', '-1', '1.5', '-9.81', '1e-9', 'true', 'false', 'nullptr', '"hello"', '""',
            '"a, b"', "'c'", 'gtsam::Pose3()', 'Foo(1, 2)', '{1, 2}', 'std::vector<int>{1,2}',
            'a::B<int, double>()', 'Foo::kDefault', '(1 + 2)', 'x[0]', '"(unbalanced"',
            '"} ;"', '"it\'s"', 'gtsam::Vector3(1, 2, 3)', '1 + 2', 'Kind::Dog', '[](int){}',
            'std::map<int, std::vector<double>>()', '-x', '"<"', 'T()', 'sizeof(int)',
            '"/path/x"', '0.', 'a.b', '&g', '!flag', "'('", "')'", "','", "';'", "'{'", "'\"'",
            '"("', '")"', '","', '";"', '"{"', "'<'", '"]"', "'['", '"http://x.org/a"', '"/*"',
            '"*/"', '"a//b"', '"/* c */"']
HEADERS = ['gtsam/geometry/Point2.h', 'vector', 'a/b-c.hpp', 'x.h', 'path with space/y.h',
           'gtsam/base/Matrix.h']


@dataclass
class Profile:
    name: str = 'dialect'
    max_items: int = 5
    max_members: int = 5
    max_args: int = 4
    max_tparams: int = 3
    max_insts: int = 3
    ns_depth: int = 3
    type_depth: int = 3
    foreign_types: bool = True
    any_dunder: bool = True          # dialect accepts any alphabetic dunder name
    trailing_defaults: bool = False  # semantic: defaults only on a suffix of the parameters
    includes: bool = True
    fwd: bool = True
    typedefs: bool = True
    variables: bool = True
    free_functions: bool = True
    enums: bool = True
    operators: bool = True
    templates: bool = True
    pair_returns: bool = True
    py_keyword_names: bool = True
    this_type: bool = True
    unique_lower_class_names: bool = False
    mixed_template_lists: bool = True  # some params with a list, some without
    parents: bool = True
    same_name_other_ns: bool = True
    same_leaf_ns: bool = True
    same_typedef_name_other_ns: bool = False
    typedef_weight: int = 1
    identity_methods: bool = False
    reopen_ns: bool = False           # the same namespace opened twice in one scope
    colliding_member_insts: bool = False  # member-template lists like {gtsam::P, sensor::P}
    defaults: bool = True
    typedef_needs_target: bool = False
    template_modes: Tuple[str, ...] = ('all', 'all', 'all', 'none', 'mixed')
    class_template_odds: int = 3      # 1 in (odds+1) classes is a template
    member_template_odds: int = 5
    move_typedefs: bool = True        # typedefs may precede their template
    typedef_same_ns: bool = False     # typedef only in the namespace of its template
    this_scoped: bool = True          # This::X uses
    global_typedefs: bool = True
    favourite_members: Tuple[str, ...] = ()   # member names tried first
    tparam_pool: Tuple[str, ...] = ()  # if set: template parameter names come from here only
    compilable: bool = False          # only what a mechanically generated C++ library can declare
    executable: bool = False          # compilable + callable from Python with generated values
    scoped_needs_plain_arg: bool = False


DIALECT = Profile()
SEMANTIC = Profile(name='semantic', any_dunder=False, trailing_defaults=True,
                   unique_lower_class_names=True, typedef_needs_target=True)


@dataclass
class Decl:
    path: Tuple[str, ...]
    name: str
    kind: str  # 'class' | 'fwd' | 'func'
    nparams: int = 0
    virtual: bool = False
    has_lists: bool = False
    scoped: bool = False  # some member uses T::X
    lists: tuple = ()     # instantiation lists of the template (if complete)
    has_enums: bool = False


class Ctx:
    def __init__(self, prof: Profile):
        self.prof = prof
        self.decls: List[Decl] = []
        self.enums: List[Tuple[Tuple[str, ...], Optional[str], str]] = []
        self.used = {}  # path -> set of names declared in that scope
        self.lower_classes = set()
        self.scoped_ok = set()  # template parameters that may be used as T::X
        self.enum_types = []    # enum types usable in the member being generated (M.Type)
        self.enum_values = {}   # (path, owner, name) -> enumerators
        self.fn_sigs = set()
        self.var_names = {}
        self.fn_templates = set()
        self.enumerators = set()  # all enumerator names used (compilable: must be unique)
        self.fn_count = {}      # (path, name) -> number of free functions of that name
        self.locked = set()     # (path, name) used as typedef target: must stay unique
        self.ns_paths = []      # namespace paths completed so far
        self.typedef_names = []  # (path, new name, target has enums)
        self.fn_groups = {}     # (path, name) -> expansions of the overloads so far
        self.enum_class_lower = set()  # lower-cased names of classes with nested enums
        self.member_kinds = {}  # (path, class) -> (property names, method names) incl. inherited
        self.block = {}         # namespace path -> number of blocks opened so far
        self.fn_block = {}      # (path, function name) -> block that declares it

    def names(self, path):
        return self.used.setdefault(path, set())

    def classes(self):
        return [d for d in self.decls if d.kind == 'class' and d.nparams == 0]


def _ident(pool: Sequence[str], regex: str, used=()):
    avail = [p for p in pool if p not in used and p not in M.RESERVED]
    # (the oracles' canonical type spelling joins `const` to the name: no identifier starts so)
    rnd = st.from_regex(regex, fullmatch=True).filter(
        lambda s: s not in used and s not in M.RESERVED and not s.startswith('__') and
        not s.startswith('const'))
    if avail:
        return st.one_of(st.sampled_from(avail), st.sampled_from(avail), rnd)
    return rnd


FOREIGN_NAMES = {n for _, n in FOREIGN_TYPES} | {n for _, n, _ in FOREIGN_TEMPLATES}
_COMPILABLE = [False]  # set per generated module: declared names must not clash with the
#                        foreign types the mock library defines


def class_name(used=()):
    if _COMPILABLE[0]:
        used = set(used) | FOREIGN_NAMES | {'T', 'This'}
    return _ident(CLASS_POOL, r'[A-Z][A-Za-z0-9]{0,5}', used)


# identifiers that merely start with a word of the dialect are ordinary identifiers
KW_PREFIXED = ['operatorNorm', 'classes', 'enumerate', 'virtual_', 'staticVar',
               'templated', 'typedefs', 'namespaces', 'unsigned_', 'pairs', 'voidness',
               'include_', 'operator_count', 'structure', 'This_', 'std_']


def lower_name(pool, used=()):
    base = _ident(pool, r'[a-z_][a-zA-Z0-9_]{0,6}', used)
    kw = [k for k in KW_PREFIXED if k not in used]
    if kw:
        return st.one_of(base, base, base, base, base, st.sampled_from(kw))
    return base


def tparam_name(used=()):
    return _ident(TPARAM_POOL, r'[A-Z][A-Z0-9_]{0,7}', used)


# ------------------------------------------------------------------ types

@st.composite
def typename_only(draw, ctx: Ctx, depth: int, tparams=(), numbers=True):
    """A type without qualifiers anywhere (instantiation-list / typedef argument)."""
    t = draw(types(ctx, depth, tparams, qualifiers=False, numbers=numbers, allow_void=False))
    return t


@st.composite
def types(draw, ctx: Ctx, depth: int, tparams: Sequence[str] = (), qualifiers=True,
          numbers=False, allow_void=False, this=False, templated=True, inner=False,
          top_qualifiers=None):
    prof = ctx.prof
    if top_qualifiers is None:
        top_qualifiers = qualifiers
    cats = ['basic', 'basic', 'custom']
    if prof.foreign_types:
        cats.append('foreign')
    scoped_cands = [p for p in tparams
                    if not prof.scoped_needs_plain_arg or p in ctx.scoped_ok]
    if tparams:
        cats += ['tparam'] * 4
        if depth > 1 and scoped_cands:
            cats += ['scoped'] * 2
    if depth > 1 and templated:
        cats += ['templated'] * (4 if tparams else 2)
    if this and prof.this_type:
        cats.append('this')
    if this and ctx.enum_types and not inner:
        cats += ['enum'] * 2
    if numbers and inner:
        cats.append('number')
    if prof.compilable:
        cats = [c for c in cats if c not in ('scoped', 'number')]
        if prof.executable:
            cats = [c for c in cats if c not in ('foreign', 'templated')] or ['basic']
    cat = draw(st.sampled_from(cats))
    ns: Tuple[str, ...] = ()
    targs: Tuple[M.Type, ...] = ()
    if cat == 'basic':
        pool = BASIC_VALUE + (['void'] if allow_void else [])
        if not top_qualifiers:
            pool = [b for b in pool if ' ' not in b]  # Typename.rule has no 'unsigned char'
        name = draw(st.sampled_from(pool))
    elif cat == 'custom':
        cls = ctx.classes()
        if cls:
            d = draw(st.sampled_from(cls))
            ns, name = d.path, d.name
        else:
            ns, name = draw(st.sampled_from(FOREIGN_TYPES if prof.foreign_types
                                            else [((), 'double')]))
    elif cat == 'foreign':
        ns, name = draw(st.sampled_from(FOREIGN_TYPES))
    elif cat == 'tparam':
        name = draw(st.sampled_from(list(tparams)))
    elif cat == 'scoped':
        ns = (draw(st.sampled_from(scoped_cands)),)
        inner_names = ['Value', 'Type', 'Jacobian', 'shared_ptr', 'T', 'Traits']
        if findings.is_open('F-21-qualified-name-equals-param'):
            inner_names = [n for n in inner_names if n not in tparams]
        name = draw(st.sampled_from(inner_names))
    elif cat == 'this':
        if draw(st.booleans()) or not prof.this_scoped or prof.compilable:
            name = 'This'
        else:
            ns, name = ('This',), draw(st.sampled_from(['Value', 'Type', 'Sub']))
    elif cat == 'enum':
        e = draw(st.sampled_from(ctx.enum_types))
        ns, name = e.ns, e.name
    elif cat == 'number':
        name = str(draw(st.integers(0, 99)))
    else:  # templated
        tdecls = [d for d in ctx.decls if d.kind in (('class',) if prof.compilable
                                                     else ('class', 'fwd')) and d.nparams > 0]
        d = None
        if tdecls and draw(st.booleans()):
            d = draw(st.sampled_from(tdecls))
            ns, name, n = d.path, d.name, d.nparams
        else:
            ns, name, n = draw(st.sampled_from(FOREIGN_TEMPLATES))
        targs = tuple(draw(types(ctx, depth - 1, tparams, qualifiers=qualifiers,
                                 numbers=numbers, this=this, inner=True))
                      for _ in range(n))
        lists_ = d.lists if d is not None else ()
        if lists_ and len(lists_) == n and not prof.compilable and draw(st.booleans()):
            # one of the instantiations the template's own lists name (a class that exists)
            targs = tuple(draw(st.sampled_from(list(l_))) for l_ in lists_)
    const, ptr = False, ''
    if top_qualifiers and cat != 'number' and name != 'void':
        const = draw(st.booleans()) and draw(st.booleans())
        ptr = draw(st.sampled_from(['', '', '', '*', '@', '&', '&']))
        if prof.compilable and (cat == 'enum' or (not ns and name in M.BASIC) or
                                name == 'string'):
            # pybind11 has no holder / pointer casters for fundamental types and strings
            ptr = '&' if ptr == '&' and const else ''
            if cat == 'enum':
                ptr = ''
        if prof.compilable and inner:
            const = False  # standard containers cannot hold const or reference types
            ptr = ptr if ptr == '*' and cat not in ('basic', 'enum', 'tparam') and \
                not (not ns and name in M.BASIC) and name != 'string' else ''
        if prof.compilable and cat == 'tparam' and ptr in ('*', '@'):
            ptr = ''  # T may be instantiated with a fundamental type
        if prof.executable and ptr == '&' and not const and cat not in ('custom', 'this'):
            ptr = ''
    return M.Type(ns, name, targs, const, ptr)


TYPED_DEFAULTS = {
    'bool': ['true', 'false'], 'int': ['0', '-1', '42', '(1 + 2)'], 'size_t': ['0', '7', '100'],
    'double': ['1.5', '-9.81', '1e-9', '0.0'], 'float': ['0.5f'], 'char': ["'c'", "'('", "','"],
    'unsigned char': ['7'],
    'string': ['"hello"', '""', '"a, b"', '"(unbalanced"', '"} ;"', '"it\'s"', '"<"'],
}


def typed_default(draw, ctx, t: M.Type, tparams=()):
    """A default-value expression that is valid C++ for the declared type (or None)."""
    if t.targs or t.name in tparams or t.name == 'This' or (t.ns and t.ns[0] == 'This'):
        return None
    if not t.ns and t.name in TYPED_DEFAULTS and t.ptr in ('', '&'):
        if t.ptr == '&' and not t.const:
            return None
        return draw(st.sampled_from(TYPED_DEFAULTS[t.name]))
    if t.ns == ('std',) and t.name == 'string' and t.ptr in ('', '&'):
        return draw(st.sampled_from(TYPED_DEFAULTS['string']))
    for (p_, owner, en) in ctx.enums:
        full = p_ + ((owner,) if owner else ())
        if t.ns == full and t.name == en:
            if owner and ctx.prof.executable:
                # pybind11 converts defaults when the binding is registered, and a class's
                # enums are registered after the class itself
                return None
            vals = ctx.enum_values.get((p_, owner, en))
            if vals:
                return '::'.join(full + (en, draw(st.sampled_from(list(vals)))))
    if ctx.prof.executable:
        return None
    for d in ctx.classes():
        if (d.path, d.name) == (t.ns, t.name):
            if t.ptr == '':
                return '::'.join(d.path + (d.name,)) + '()'
            if t.ptr == '&' and t.const:
                return '::'.join(d.path + (d.name,)) + '()'
            return None
    return None


@st.composite
def arg_lists(draw, ctx: Ctx, tparams=(), this=False, max_args=None, min_args=0):
    prof = ctx.prof
    n = draw(st.integers(min_args, prof.max_args if max_args is None else max_args))
    used = set()
    args = []
    if prof.compilable:
        used |= set(tparams) | {'T', 'This'}
    for _ in range(n):
        nm = draw(lower_name(ARG_POOL, used))
        used.add(nm)
        t = draw(types(ctx, prof.type_depth, tparams, this=this))
        with_targs = [a.type for a in args if a.type.targs]
        if with_targs and not prof.compilable and draw(st.integers(0, 3)) == 0:
            # the same templated type again, one argument of it qualified differently
            # (std::vector<T*> next to std::vector<T>)
            t0 = draw(st.sampled_from(with_targs))
            k_ = draw(st.integers(0, len(t0.targs) - 1))
            a0 = t0.targs[k_]
            if not a0.name.isdigit():
                a1 = replace(a0, ptr=draw(st.sampled_from([p_ for p_ in ('', '*', '&', '@')
                                                           if p_ != a0.ptr])))
                t = replace(t0, targs=t0.targs[:k_] + (a1,) + t0.targs[k_ + 1:])
        args.append(M.Arg(t, nm, None))
    if prof.defaults and args:
        if prof.trailing_defaults:
            k = draw(st.integers(0, len(args))) if draw(st.booleans()) else 0
            mask = [i >= len(args) - k for i in range(len(args))]
        else:
            mask = [draw(st.booleans()) and draw(st.booleans()) for _ in args]
        if prof.compilable:
            new = []
            ok = True
            for a, m in zip(reversed(args), reversed(mask)):
                d = typed_default(draw, ctx, a.type, tparams) if (m and ok) else None
                if d is None:
                    ok = False  # defaults must stay a suffix
                new.append(replace(a, default=d))
            args = list(reversed(new))
        else:
            args = [replace(a, default=draw(st.sampled_from(DEFAULTS))) if m else a
                    for a, m in zip(args, mask)]
    return tuple(args)


@st.composite
def redefault(draw, ctx: Ctx, args, tparams=()):
    """The same parameter list with a freshly drawn (suffix) set of typed defaults."""
    out = []
    ok = True
    k = draw(st.integers(0, len(args)))
    for i, a in enumerate(reversed(args)):
        d = typed_default(draw, ctx, a.type, tparams) if (i < k and ok) else None
        if d is None:
            ok = False
        out.append(replace(a, default=d))
    return tuple(reversed(out))


@st.composite
def rets(draw, ctx: Ctx, tparams=(), this=False):
    prof = ctx.prof
    if prof.pair_returns and draw(st.integers(0, 5)) == 0:
        t1 = draw(types(ctx, 1, tparams, this=this, templated=False))
        t2 = draw(types(ctx, 1, tparams, this=this, templated=False))
        return M.Ret(t1, t2, draw(st.booleans()))
    return M.Ret(draw(types(ctx, prof.type_depth, tparams, allow_void=True, this=this)))


def _iname(t: M.Type) -> str:
    return (t.name + ''.join(_iname(a) for a in t.targs)).lower()


@st.composite
def templates(draw, ctx: Ctx, used=(), force_lists=None, max_params=None, member_level=False):
    prof = ctx.prof
    n = draw(st.integers(1, prof.max_tparams if max_params is None else max_params))
    names = []
    used = set(used)
    if findings.is_open('F-21-qualified-name-equals-param'):
        # no declared or foreign type may be spelled like a parameter (ns::A with parameter A)
        used |= {d.name for d in ctx.decls} | {n_ for _, n_ in FOREIGN_TYPES} | \
            {n_ for _, n_, _ in FOREIGN_TEMPLATES} | {e[2] for e in ctx.enums} | \
            {c for pth in ctx.used for c in pth} | set(NS_POOL)
    for _ in range(n):
        if prof.tparam_pool:
            nm = draw(st.sampled_from([x for x in prof.tparam_pool
                                       if x not in used and x not in names]))
        elif names and draw(st.integers(0, 3)) == 0:
            # parameter names contained in one another (T and VT, POSE and POSE2) are ordinary
            base_ = draw(st.sampled_from(names))
            nm = draw(st.sampled_from([x + base_ for x in 'VPX'] + [base_ + x for x in '2_X'])
                      .filter(lambda x: x not in used and x not in names and
                              x not in M.RESERVED))
        else:
            nm = draw(tparam_name(set(used) | set(names)))
        names.append(nm)
    if force_lists is None:
        mode = draw(st.sampled_from([m for m in prof.template_modes if m != 'mixed' or n > 1]))
    else:
        mode = 'all' if force_lists else 'none'
    qual = not findings.is_open('F-17-inst-qualifiers')
    params = []
    for i, nm in enumerate(names):
        has = mode == 'all' or (mode == 'mixed' and draw(st.booleans()))
        insts: Tuple[M.Type, ...] = ()
        if has:
            k = draw(st.integers(1, prof.max_insts))
            lst = []
            for _ in range(k):
                x = draw(types(ctx, 2, (), qualifiers=qual, numbers=not prof.compilable,
                               templated=True, top_qualifiers=False))
                # an instantiation list names each type once, and the generated names
                # (NameArg..., namespaces do not take part) must differ
                if x not in lst and (member_level and prof.colliding_member_insts or
                                     _iname(x) not in [_iname(y) for y in lst]):
                    lst.append(x)
                    if member_level and prof.colliding_member_insts and x.ns and \
                            len(lst) < k and draw(st.integers(0, 2)) == 0:
                        # the same name from another namespace: a second overload of one name
                        twin = replace(x, ns=('sensor',) if x.ns != ('sensor',) else ('gtsam',))
                        if twin not in lst:
                            lst.append(twin)
            insts = tuple(lst)
        params.append(M.TParam(nm, insts))
    return M.Template(tuple(params))


# ------------------------------------------------------------------ members

def _member_names(ctx):
    pool = list(ctx.prof.favourite_members) + list(FUNC_POOL)
    if ctx.prof.py_keyword_names:
        pool += PY_KEYWORDS[:10] + ['print', 'print'] + IPYTHON[:2]
    return pool


@st.composite
def enums(draw, ctx: Ctx, used):
    if ctx.prof.compilable:
        # an enum nested in a class must not hide one of an enclosing scope
        used = set(used) | {e[2] for e in ctx.enums}
    nm = draw(_ident(ENUM_POOL, r'[A-Z][a-zA-Z0-9]{0,5}', used))
    n = draw(st.integers(1, 5))
    es = []
    raw = []
    for _ in range(n):
        e = draw(_ident(ENUMERATOR_POOL, r'[A-Za-z][A-Za-z0-9_]{0,5}', set(raw)))
        raw.append(e)
        if ctx.prof.compilable:
            e = nm + '_' + e  # unscoped enumerators share the enclosing scope: keep them unique
        es.append(e)
    kw = draw(st.sampled_from(['enum', 'enum', 'enum class', 'enum struct']))
    ctx.last_enum = (nm, tuple(es))
    return M.Enum(nm, tuple(es), kw)


ARITH = {'bool', 'char', 'unsigned char', 'int', 'size_t', 'double', 'float'}


def _expansions(args):
    """(all, with_omission): collapsed type lists of the calls a parameter list with trailing
    defaults stands for; arithmetic types convert into each other, so `f(bool = false)` and
    `f(size_t = 0)` cannot both be called with the default written out as a literal."""
    def col(t):
        if not t.ns and not t.targs and t.name in ARITH and t.ptr in ('', '&'):
            return 'arith'
        return M.replace(t, const=False) if t.ptr == '' else t
    types_ = tuple(col(a.type) for a in args)
    n = len(args)
    k = n
    while k > 0 and args[k - 1].default is not None:
        k -= 1
    every = {types_[:i] for i in range(k, n + 1)}
    omitted = {types_[:i] for i in range(k, n)}
    if k < n:
        # the MATLAB wrapper writes an omitted default out as a literal at the call site, so the
        # reduced call has the full shape again, with an expression of another arithmetic type
        omitted.add(types_)
    return every, omitted


def _ambiguous_with_defaults(args, earlier):
    every, omitted = _expansions(args)
    for e_all, e_om in earlier:
        if (omitted & e_all) or (every & e_om):
            return True
    earlier.append((every, omitted))
    return False


def _distinct_signatures(members):
    """C++ cannot overload on return type or declare the same member twice: keep the first of
    each (kind-agnostic name, parameter types) and one operator per spelling and arity."""
    seen, out = set(), []
    groups = {}
    have_tpl_ctor = False
    for m in members:
        if isinstance(m, M.Ctor):
            if m.template is not None:
                if have_tpl_ctor:
                    continue  # two constructor templates with deducible parameters collide
                have_tpl_ctor = True
            if len(m.args) == 1 and m.args[0].type.ptr == '' and not m.args[0].type.ns and \
                    m.args[0].type.name in ('This', m.name):
                continue  # a constructor taking its own class by value is not C++
        if isinstance(m, (M.Method, M.Static, M.Ctor)):
            key = ('call', m.name, tuple(M.replace(a.type, const=False) if a.type.ptr == ''
                                         else a.type for a in m.args))
        elif isinstance(m, M.Operator):
            key = ('op', m.op, len(m.args) if m.op not in ('()', '[]') else 0)
        elif isinstance(m, M.Dunder):
            key = ('dunder', m.name)
        else:
            out.append(m)
            continue
        if key in seen:
            continue
        if key[0] == 'call' and _ambiguous_with_defaults(m.args, groups.setdefault(m.name, [])):
            continue  # an omitted default would make the call ambiguous in C++ itself
        seen.add(key)
        out.append(m)
    names = {m.name for m in out if isinstance(m, M.Prop)}
    out = [m for m in out if not (isinstance(m, (M.Method, M.Static)) and m.name in names)]
    # pybind11 refuses one name for both static and instance methods
    inst = {m.name for m in out if isinstance(m, M.Method)}
    return [m for m in out if not (isinstance(m, M.Static) and m.name in inst)]


@st.composite
def classes(draw, ctx: Ctx, path: Tuple[str, ...]):
    prof = ctx.prof
    used = ctx.names(path)
    others = sorted({d.name for d in ctx.decls
                     if d.kind == 'class' and d.path != path and d.name not in used})
    reused = False
    if prof.same_name_other_ns and others and draw(st.integers(0, 2)) == 0:
        # the same class name in another namespace (no nested enums then: the pybind
        # generator names the enum scope variable after the lower-cased class name)
        name = draw(st.sampled_from(others))
        reused = True
    else:
        name = draw(class_name(used).filter(
            lambda s: not prof.unique_lower_class_names or s.lower() not in ctx.lower_classes))
    used.add(name)
    ctx.lower_classes.add(name.lower())
    template = None
    if prof.templates and draw(st.integers(0, 1 if reused else prof.class_template_odds)) == 0:
        template = draw(templates(ctx, used={name}))  # a parameter is not named like its class
    ctp = tuple(template.names()) if template else ()
    class_ok = {p.name for p in template.params if not any(i.targs for i in p.insts)} \
        if template else set()
    ctx.scoped_ok = set(class_ok)
    virtual = draw(st.booleans()) and draw(st.booleans())
    parent = None
    if prof.parents and draw(st.integers(0, 1 if prof.executable else 3)) == 0:
        cands = ctx.classes()
        choice = draw(st.integers(0, 3))
        if cands and choice <= 1:
            d = draw(st.sampled_from(cands))
            parent = M.Type(d.path, d.name)
        elif choice == 2:
            parent = draw(types(ctx, 2, ctp, qualifiers=False).filter(
                lambda t: bool(t.targs) and not t.name.isdigit()))
        elif prof.foreign_types:
            ns, nm = draw(st.sampled_from([x for x in FOREIGN_TYPES if x[1] != 'string']
                                          if prof.compilable else FOREIGN_TYPES))
            parent = M.Type(ns, nm)
    members = []
    last_args = [None]
    n = draw(st.integers(0, prof.max_members))
    mnames = _member_names(ctx)
    ctx.enum_types = [M.Type(path, en) for (p_, owner, en) in ctx.enums
                      if p_ == path and owner is None]
    prop_names = set()
    enum_names = set()
    kinds = ['ctor', 'method', 'method', 'method', 'static', 'prop']
    if prof.operators:
        kinds.append('op')
    # (the pybind generator names a class's enum scope variable after the lower-cased class
    # name: at most one class of that name carries enums)
    if prof.enums and not (prof.unique_lower_class_names and
                           name.lower() in ctx.enum_class_lower):
        kinds.append('enum')
    kinds.append('dunder')
    if prof.name != 'dialect' and draw(st.integers(0, 4)) == 2:
        # serialization marker (at most one per class), as in DOCS.md
        members.append(M.Method(M.Ret(M.Type((), 'void')),
                                draw(st.sampled_from(['serialize', 'serializable'])), (), True))
    if prof.identity_methods and not template and draw(st.integers(0, 2)) == 0:
        # takes and returns a shared pointer of the class (merge / clone-into style)
        self_p = M.Type((), 'This', (), False, '*')
        nm_ = draw(st.sampled_from(['share', 'merged', 'same']))
        if draw(st.booleans()):
            members.append(M.Method(M.Ret(self_p), nm_, (M.Arg(self_p, 'other'),), True))
        else:
            members.append(M.Static(M.Ret(self_p), nm_, (M.Arg(self_p, 'other'),
                                                         M.Arg(M.Type((), 'int'), 'n'))))
    for _ in range(n):
        k = draw(st.sampled_from(kinds))
        ctx.scoped_ok = set(class_ok)
        if k == 'ctor':
            mt = None
            if prof.templates and draw(st.integers(0, prof.member_template_odds)) == 0:
                mt = draw(templates(ctx, used=set(ctp) | {name}, force_lists=True, max_params=2,
                                    member_level=True))
                ctx.scoped_ok |= {p.name for p in mt.params if not any(i.targs for i in p.insts)}
            tps = ctp + (tuple(mt.names()) if mt else ())
            cargs = draw(arg_lists(ctx, tps, this=True))
            if mt and prof.compilable:
                # constructor template parameters must be deducible from the arguments
                cargs = tuple(M.Arg(M.Type((), p_), 'd%d' % i_) for i_, p_ in
                              enumerate(mt.names())) + tuple(
                    a_ for a_ in cargs if not a_.name.startswith('d'))
                cargs = tuple(replace(a_, default=None) if a_.default is not None and False
                              else a_ for a_ in cargs)
            members.append(M.Ctor(name, cargs, mt))
        elif k in ('method', 'static'):
            mt = None
            if prof.templates and draw(st.integers(0, prof.member_template_odds)) == 0:
                mt = draw(templates(ctx, used=set(ctp) | {name}, force_lists=True, max_params=2,
                                    member_level=True))
                ctx.scoped_ok |= {p.name for p in mt.params if not any(i.targs for i in p.insts)}
            tps = ctp + (tuple(mt.names()) if mt else ())
            same_kind = sorted({x.name for x in members
                                if isinstance(x, M.Method if k == 'method' else M.Static) and
                                x.name not in ('serialize', 'serializable')})
            if same_kind and draw(st.integers(0, 3)) == 0:
                mname = draw(st.sampled_from(same_kind))  # an overload of an earlier member
            else:
                mname = draw(lower_name(mnames, prop_names | {name}))
            r = draw(rets(ctx, tps, this=True))
            a = draw(arg_lists(ctx, tps, this=True))
            if prof.compilable and last_args[0] and mt is None and draw(st.integers(0, 3)) == 0:
                # same parameter types and names as the previous callable, other defaults
                a = draw(redefault(ctx, last_args[0], tps))
            if mt is None:
                last_args[0] = a
            if k == 'method':
                is_const = draw(st.booleans())
                if mname == 'print' and findings.is_open('F-33-print-must-be-const'):
                    is_const = True
                members.append(M.Method(r, mname, a, is_const, mt))
            else:
                members.append(M.Static(r, mname, a, mt))
        elif k == 'prop':
            pn = draw(lower_name(ARG_POOL, prop_names | {name}))
            prop_names.add(pn)
            t = draw(types(ctx, prof.type_depth, ctp))
            if not t.const and t.name != 'void' and draw(st.integers(0, 2)) == 0:
                t = replace(t, const=True)  # read-only properties, with every pointer marker
            dflt = draw(st.sampled_from(DEFAULTS)) if prof.defaults and \
                draw(st.integers(0, 4)) == 0 else None
            members.append(M.Prop(t, pn, dflt))
        elif k == 'op':
            op = draw(st.sampled_from(M.OPERATORS))
            self_t = M.Type((), name) if not template else M.Type((), 'This')
            if not prof.this_type and template:
                self_t = M.Type((), name)
            if op in ('()', '[]'):
                a = draw(arg_lists(ctx, ctp, max_args=1, min_args=1))
                a = (replace(a[0], default=None),)
                r = M.Ret(draw(types(ctx, 2, ctp)))
                members.append(M.Operator(r, op, a))
            elif op in ('+', '-') and draw(st.booleans()):
                members.append(M.Operator(M.Ret(self_t), op, ()))
                if draw(st.booleans()):  # unary and binary form of the same symbol
                    members.append(M.Operator(M.Ret(self_t), op, (M.Arg(self_t, 'other'),)))
            else:
                at = replace(self_t, const=True, ptr='&') if draw(st.booleans()) else self_t
                members.append(M.Operator(M.Ret(self_t), op, (M.Arg(at, 'other'),)))
        elif k == 'enum':
            e = draw(enums(ctx, enum_names | {name}))
            enum_names.add(e.name)
            ctx.enums.append((path, name, e.name))
            ctx.enum_values[(path, name, e.name)] = e.enumerators
            if not template:
                ctx.enum_types = ctx.enum_types + [M.Type(path + (name,), e.name)]
            members.append(e)
        else:
            if prof.any_dunder:
                dn = draw(st.sampled_from(['len', 'contains', 'iter', 'str', 'getitem']) |
                          st.from_regex(r'[a-zA-Z]{1,6}', fullmatch=True))
                members.append(M.Dunder(dn, draw(arg_lists(ctx, ctp, max_args=2))))
            else:
                dn = draw(st.sampled_from(['len', 'contains', 'iter']))
                a = draw(arg_lists(ctx, ctp, max_args=1, min_args=1)) if dn == 'contains' else ()
                if prof.compilable and dn == 'contains':
                    a = (M.Arg(M.Type((), 'int'), 'key'),)
                if not (prof.compilable and any(isinstance(x, M.Dunder) and x.name == dn
                                                for x in members)):
                    members.append(M.Dunder(dn, a))
    ctx.enum_types = []
    if prof.compilable:
        members = _distinct_signatures(members)
        # pybind11 cannot register a method under the name of an inherited property (or the
        # reverse): a derived class does not re-use an ancestor's member name for another kind
        inh = ctx.member_kinds.get((parent.ns, parent.name), (set(), set())) \
            if parent is not None else (set(), set())
        members = [x for x in members
                   if not (isinstance(x, (M.Method, M.Static)) and x.name in inh[0]) and
                   not (isinstance(x, M.Prop) and x.name in inh[1])]
        ctx.member_kinds[(path, name)] = (
            inh[0] | {x.name for x in members if isinstance(x, M.Prop)},
            inh[1] | {x.name for x in members if isinstance(x, (M.Method, M.Static))})
    has_lists = bool(template) and all(p.insts for p in template.params)
    cls = M.Class(name, tuple(members), template, virtual, parent)
    scoped = any(t2.ns and t2.ns[0] in ctp for t in M.all_types(cls) for t2 in t.walk())
    ctx.decls.append(Decl(path, name, 'class', len(ctp), virtual, has_lists, scoped,
                          tuple(p.insts for p in template.params) if has_lists else (),
                          any(isinstance(x, M.Enum) for x in members)))
    if any(isinstance(x, M.Enum) for x in members):
        ctx.enum_class_lower.add(name.lower())
    return cls


@st.composite
def functions(draw, ctx: Ctx, path):
    prof = ctx.prof
    used = ctx.names(path)
    template = None
    if prof.templates and draw(st.integers(0, prof.class_template_odds)) == 0:
        template = draw(templates(ctx, max_params=2))
    tps = tuple(template.names()) if template else ()
    ctx.scoped_ok = {p.name for p in template.params if not any(i.targs for i in p.insts)} \
        if template else set()
    pool = FUNC_POOL + (PY_KEYWORDS[:6] + ['print'] if prof.py_keyword_names else [])
    classes_here = {d.name for d in ctx.decls if d.path == path and d.kind != 'func'} | \
        {n for (p_, n) in ctx.locked if p_ == path}
    if prof.compilable:
        classes_here = classes_here | ctx.var_names.get(path, set()) | \
            {pth[len(path)] for pth in ctx.used if len(pth) > len(path) and pth[:len(path)] == path}
    blk = ctx.block.get(path, 0)
    if findings.is_open('F-36-matlab-overloads-across-namespace-blocks'):
        # an overload set stays within one block of a namespace that is opened several times
        classes_here = classes_here | {n for (p_, n), b_ in ctx.fn_block.items()
                                       if p_ == path and b_ != blk}
    earlier = sorted(n for (p_, n) in ctx.fn_count if p_ == path and n not in classes_here and
                     (p_, n) not in ctx.locked)
    if earlier and draw(st.integers(0, 2)) == 0:
        name = draw(st.sampled_from(earlier))  # an overload, possibly not adjacent to the first
    else:
        name = draw(lower_name(pool, classes_here))
    ctx.fn_count[(path, name)] = ctx.fn_count.get((path, name), 0) + 1
    ctx.fn_block.setdefault((path, name), blk)
    r = draw(rets(ctx, tps))
    a = draw(arg_lists(ctx, tps))
    if prof.compilable and any(x.name == name for x in a):
        a = tuple(replace(x, name=x.name + '_') if x.name == name else x for x in a)
    fn = M.Func(r, name, a, template)
    if prof.compilable:
        key = (path, name, tuple(M.replace(x.type, const=False) if x.type.ptr == '' else x.type
                                 for x in a))
        if key in ctx.fn_sigs or (path, name) in ctx.fn_templates or \
                (template and any(k[0] == path and k[1] == name for k in ctx.fn_sigs)):
            return None
        if _ambiguous_with_defaults(a, ctx.fn_groups.setdefault((path, name), [])):
            return None
        ctx.fn_sigs.add(key)
        if template:
            ctx.fn_templates.add((path, name))
    if template and not any(d.name == name and d.path == path for d in ctx.decls):
        scoped = any(t2.ns and t2.ns[0] in tps for t in M.all_types(fn) for t2 in t.walk())
        ctx.decls.append(Decl(path, name, 'func', len(tps), False,
                              all(p.insts for p in template.params), scoped))
        used.add(name)
    return fn


@st.composite
def typedefs(draw, ctx: Ctx, path):
    prof = ctx.prof
    used = ctx.names(path)
    targets = [d for d in ctx.decls if d.nparams > 0 and
               [x for x in ctx.decls if x.name == d.name and x.path == d.path] == [d] and
               (d.kind != 'func' or ctx.fn_count.get((d.path, d.name), 0) == 1)]
    if findings.is_open('F-7-typedef-after-namespace'):
        # the template's namespace must enclose (or be) the typedef's namespace
        targets = [d for d in targets if d.path == path[:len(d.path)]]
    if prof.typedef_same_ns:
        targets = [d for d in targets if d.path == path]
    shared = [d for d in targets if any(x is not d and x.name == d.name for x in ctx.decls)]
    if shared and draw(st.booleans()):
        targets = shared
    if targets:
        # (often the template declared last)
        d = targets[-1] if draw(st.integers(0, 2)) == 0 else draw(st.sampled_from(targets))
        ns, nm, n = d.path, d.name, d.nparams
        ctx.locked.add((d.path, d.name))
    elif prof.typedef_needs_target:
        return None
    else:
        ns, nm, n = draw(st.sampled_from(FOREIGN_TEMPLATES))
    qual = not findings.is_open('F-17-inst-qualifiers')
    plain = prof.scoped_needs_plain_arg and targets and d.scoped
    if targets and d.lists and draw(st.integers(0, 2)) == 0:
        # the same instantiation under a second name (template list entry + typedef)
        targs = tuple(draw(st.sampled_from(list(lst))) for lst in d.lists)
    else:
        targs = tuple(draw(types(ctx, 1 if plain else 2, (), qualifiers=qual, numbers=True,
                                 inner=True, top_qualifiers=qual))
                      for _ in range(n))
    has_enums = bool(targets) and d.has_enums
    elsewhere = sorted({n_ for (p_, n_, e_) in ctx.typedef_names
                        if p_ != path and not e_ and n_ not in used})
    if prof.same_typedef_name_other_ns and elsewhere and not has_enums and \
            draw(st.booleans()):
        new = draw(st.sampled_from(elsewhere))  # geometry::Default, sensors::Default
    else:
        new = draw(class_name(used).filter(
            lambda s: not prof.unique_lower_class_names or s.lower() not in ctx.lower_classes))
    used.add(new)
    ctx.lower_classes.add(new.lower())
    ctx.typedef_names.append((path, new, has_enums))
    first = M.Typedef(M.Type(ns, nm, targs), new)
    # a second typedef, of the same-named template in another namespace, right next to it
    twins = [x for x in (targets if targets else []) if x is not d and x.name == d.name] \
        if targets else []
    if twins and draw(st.booleans()):
        t = twins[0]
        targs2 = tuple(draw(types(ctx, 1, (), qualifiers=False, numbers=True, inner=True,
                                  top_qualifiers=False)) for _ in range(t.nparams))
        new2 = draw(class_name(used).filter(
            lambda s: not prof.unique_lower_class_names or s.lower() not in ctx.lower_classes))
        used.add(new2)
        ctx.lower_classes.add(new2.lower())
        ctx.locked.add((t.path, t.name))
        return [first, M.Typedef(M.Type(t.path, t.name, targs2), new2)]
    return first


@st.composite
def fwds(draw, ctx: Ctx, path):
    used = ctx.names(path)
    name = draw(class_name(used))
    used.add(name)
    ctx.lower_classes.add(name.lower())
    virtual = draw(st.booleans()) and draw(st.booleans())
    parent = None
    if draw(st.integers(0, 3)) == 0:
        ns, nm = draw(st.sampled_from(FOREIGN_TYPES))
        parent = M.Type(ns, nm)
    # a forward declaration may stand for a foreign template (typedef target)
    ctx.decls.append(Decl(path, name, 'fwd', draw(st.integers(0, 2)), virtual))
    return M.Fwd(M.Type((), name), virtual, parent)


@st.composite
def variables(draw, ctx: Ctx, path):
    used = ctx.names(path)
    fn_here = {n for (p_, n) in ctx.fn_count if p_ == path}
    name = draw(lower_name(['kGravity', 'kMax', 'origin', 'eps', 'version'],
                           used | fn_here if ctx.prof.compilable else used))
    used.add(name)
    ctx.var_names.setdefault(path, set()).add(name)
    t = draw(types(ctx, 2, ()))
    if draw(st.integers(0, 2)) == 0:  # most constants are of a fundamental type
        t = M.Type((), draw(st.sampled_from(['bool', 'bool', 'double', 'int', 'size_t'])), (),
                   draw(st.booleans()), '')
    dflt = draw(st.sampled_from(DEFAULTS)) if ctx.prof.defaults and draw(st.booleans()) else None
    if ctx.prof.compilable and dflt is not None:
        dflt = typed_default(draw, ctx, t)
    return M.Var(t, name, dflt)


@st.composite
def contents(draw, ctx: Ctx, path: Tuple[str, ...], depth_left: int, max_items=None, lead=()):
    prof = ctx.prof
    ctx.block[path] = ctx.block.get(path, 0) + 1  # which block of this namespace
    n = max(draw(st.integers(0, prof.max_items if max_items is None else max_items)), len(lead))
    kinds = ['class', 'class', 'class']
    if prof.free_functions:
        kinds += ['func', 'func']
    if prof.enums:
        kinds.append('enum')
    if prof.variables:
        kinds.append('var')
    if prof.includes:
        kinds.append('include')
    if prof.fwd:
        kinds.append('fwd')
    if prof.typedefs and (path or prof.global_typedefs):
        kinds += ['typedef'] * prof.typedef_weight
    if depth_left > 0:
        kinds += ['ns', 'ns']
    out = []
    for i_ in range(n):
        k = lead[i_] if i_ < len(lead) else draw(st.sampled_from(kinds))
        if k == 'class':
            out.append(draw(classes(ctx, path)))
        elif k == 'func':
            # free functions come in runs (f, g, f again: overloads need not be adjacent)
            for _ in range(draw(st.sampled_from([1, 1, 2, 3]))):
                f_ = draw(functions(ctx, path))
                if f_ is not None:
                    out.append(f_)
        elif k == 'enum':
            e = draw(enums(ctx, ctx.names(path)))
            ctx.names(path).add(e.name)
            ctx.enums.append((path, None, e.name))
            ctx.enum_values[(path, None, e.name)] = e.enumerators
            out.append(e)
        elif k == 'var':
            out.append(draw(variables(ctx, path)))
        elif k == 'include':
            out.append(M.Include(draw(st.sampled_from(HEADERS))))
        elif k == 'fwd':
            out.append(draw(fwds(ctx, path)))
        elif k == 'typedef':
            t = draw(typedefs(ctx, path))
            if isinstance(t, list):
                out.extend(t)
            elif t is not None:
                out.append(t)
        else:
            used = ctx.names(path)
            ns_used = used
            if prof.compilable:
                ns_used = set(used) | {n_ for (p_, n_) in ctx.fn_count if p_ == path}
            if prof.compilable:
                # a namespace must not hide the foreign namespaces / enclosing names it refers to
                ns_used = set(ns_used) | {'gtsam', 'ns', 'std', 'Eigen'} | set(path) | \
                    {c for pth in ctx.used for c in pth}  # qualified names stay unambiguous
                if not path:
                    ns_used -= {'gtsam'} - {c for pth in ctx.used for c in pth}
            # the same leaf name under another parent (a::detail, b::detail) is ordinary C++
            leaves = sorted({p_[-1] for p_ in ctx.ns_paths} - set(ns_used) - set(path))
            lead_ = ()
            here = sorted({p_[-1] for p_ in ctx.ns_paths if p_[:-1] == path})
            if prof.reopen_ns and here and draw(st.integers(0, 2)) == 0:
                # a namespace is opened again (the next interface file of a project does that)
                nm = draw(st.sampled_from(here))
                again = ('class', 'typedef') if prof.typedefs and draw(st.booleans()) else ()
                out.append(M.Namespace(nm, draw(contents(ctx, path + (nm,), depth_left - 1,
                                                         lead=again))))
                continue
            if prof.same_leaf_ns and not prof.compilable and leaves and \
                    draw(st.integers(0, 1)) == 0:
                nm = draw(st.sampled_from(leaves))
                if prof.enums and draw(st.booleans()):
                    lead_ = ('enum', 'class')  # ... with declarations of its own that get used
            else:
                nm = draw(lower_name(NS_POOL, ns_used))  # a namespace is opened once per scope
            used.add(nm)
            out.append(M.Namespace(nm, draw(contents(ctx, path + (nm,), depth_left - 1,
                                                     lead=lead_))))
            ctx.ns_paths.append(path + (nm,))
    here = sorted({p_[-1] for p_ in ctx.ns_paths if p_[:-1] == path})
    if prof.reopen_ns and here and depth_left > 0 and draw(st.integers(0, 3)) == 0:
        # ... as the last thing in its scope, too (a project's later file)
        nm = draw(st.sampled_from(here))
        again = ('class', 'typedef') if prof.typedefs and draw(st.booleans()) else ()
        out.append(M.Namespace(nm, draw(contents(ctx, path + (nm,), depth_left - 1,
                                                 lead=again))))
    if prof.move_typedefs:
        for i in range(len(out)):
            if isinstance(out[i], M.Typedef) and i > 0 and draw(st.integers(0, 2)) == 0:
                j = draw(st.integers(0, i - 1))
                out.insert(j, out.pop(i))
    return tuple(out)


@st.composite
def modules(draw, prof: Profile = DIALECT):
    _COMPILABLE[0] = prof.compilable
    ctx = Ctx(prof)
    return M.Module(draw(contents(ctx, (), prof.ns_depth)))


# ------------------------------------------------------------------ features (for evidence)

def features(m: M.Module) -> set:
    f = set()
    for path, it in M.iter_items(m):
        if len(path) >= 2:
            f.add('ns-depth>=2')
        if isinstance(it, M.Class):
            kinds = [type(x).__name__ for x in it.members]
            if len(set(kinds)) >= 2 and kinds != sorted(kinds, key=lambda k: [c.__name__ for c in M.MEMBER_ORDER].index(k)):
                f.add('interleaved-member-kinds')
            if it.parent is not None and it.parent.targs:
                f.add('templated-base')
            if it.template:
                f.add('class-template')
            if it.virtual:
                f.add('virtual')
            for x in it.members:
                if getattr(x, 'template', None):
                    f.add('member-template')
                if isinstance(x, M.Operator):
                    f.add('operator')
        if isinstance(it, M.Typedef):
            f.add('typedef')
        if isinstance(it, M.Fwd):
            f.add('fwd')
        for t in M.all_types(it):
            if t.depth() >= 2:
                f.add('type-depth>=2')
            if t.depth() >= 3:
                f.add('type-depth>=3')
            for a in t.targs:
                for s in a.walk():
                    if s.const or s.ptr:
                        f.add('qualifier-inside-targs')
        for x in _walk_dc(it):
            if isinstance(x, M.Ret) and x.t2 is not None:
                f.add('pair-return')
                if x.t1.const or x.t1.ptr or x.t2.const or x.t2.ptr:
                    f.add('pair-qualified')
            if isinstance(x, (M.Arg, M.Prop, M.Var)) and x.default is not None:
                f.add('default')
                if any(c in x.default for c in '([{<"\','):
                    f.add('default-brackets-quotes')
    return f


def _walk_dc(x):
    import dataclasses
    if dataclasses.is_dataclass(x):
        yield x
        if isinstance(x, M.Namespace):
            return
        for fl in dataclasses.fields(x):
            yield from _walk_dc(getattr(x, fl.name))
    elif isinstance(x, (tuple, list)):
        for i in x:
            yield from _walk_dc(i)
