"""Known findings: /verif/known_findings.jsonl (committed, never written at run time).

Each line is a JSON object:
  {"id": "F-17-inst-qualifiers", "property": ["C01","C07"], "status": "open"|"fixed",
   "entry": "<the human-readable line required by the interface>",
   "witness": {...}, "clause": "..."}
While an entry is open (a) its witness is replayed by the owning checks, which print
"KNOWN-FINDING: property=<id> <what fails>" if it still fails, and (b) generators avoid the
shape (callers ask is_open(id)) so that the search continues behind it.  A fixed entry
suppresses nothing: generators produce the shape again and the witness joins the replay tier.
"""
import json
import os

_PATH = os.path.join(os.path.dirname(os.path.dirname(os.path.abspath(__file__))),
                     'known_findings.jsonl')
_cache = None


def entries():
    global _cache
    if _cache is None:
        _cache = []
        if os.path.exists(_PATH):
            with open(_PATH) as f:
                for line in f:
                    line = line.strip()
                    if line and not line.startswith('#'):
                        _cache.append(json.loads(line))
    return _cache


def is_open(fid: str) -> bool:
    return any(e['id'] == fid and e.get('status') == 'open' for e in entries())


def for_property(pid: str, status=None):
    return [e for e in entries()
            if pid in e.get('property', []) and (status is None or e.get('status') == status)]
